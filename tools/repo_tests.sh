#!/bin/bash
# Run the repository's pinned suite (guard off) and compare with BASELINE.json's stable_pass list.
REPO="${1:-/repo}"
OUT=$(mktemp /var/tmp/lsf-junit.XXXXXX.xml)
cd "$REPO" && env -u LSF_VERIF /venv/bin/python -m pytest -ra -q -p no:cacheprovider --timeout=900 --continue-on-collection-errors --junitxml="$OUT" >/dev/null 2>&1
/venv/bin/python - "$OUT" <<'PY'
import sys, json, xml.etree.ElementTree as ET
base = json.load(open("/root/.vp/BASELINE.json"))
want = set(base["stable_pass"])
got = set()
for tc in ET.parse(sys.argv[1]).getroot().iter("testcase"):
    if not any(ch.tag in ("failure", "error", "skipped") for ch in tc):
        got.add("%s::%s" % (tc.get("classname"), tc.get("name")))
missing = sorted(want - got)
print("baseline stable_pass=%d passed_now=%d missing=%d" % (len(want), len(got & want), len(missing)))
for m in missing: print("  MISSING", m)
sys.exit(1 if missing else 0)
PY
rc=$?
rm -f "$OUT"
exit $rc
