#!/opt/veriftools/pyvenv/bin/python
import json, jsonschema, glob, sys
ok = True
jsonschema.validate(json.load(open('/verif/MANIFEST.json')), json.load(open('/root/.vp/MANIFEST.schema.json')))
es = json.load(open('/root/.vp/EVIDENCE.schema.json'))
for f in sorted(glob.glob('/verif/evidence/*.json')):
    try:
        jsonschema.validate(json.load(open(f)), es)
    except Exception as e:
        ok = False
        print("INVALID", f, str(e)[:200])
print("schemas ok" if ok else "schema problems")
sys.exit(0 if ok else 1)
