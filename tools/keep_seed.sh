#!/bin/bash
# tools/keep_seed.sh <PID> <name> <mutation dir> "<needs>" "<checks run -> result>"
# Regenerates patch.diff against the current /repo HEAD (in a scratch worktree) and stores the seeded change under /verif/seeded/<PID>-<name>/
PID=$1; NAME=$2; M=$(readlink -f "$3"); NEEDS="$4"; RAN="$5"
D=/verif/seeded/$PID-$NAME; mkdir -p "$D"
WT=$(mktemp -d /var/tmp/lsf-keep.XXXXXX); rmdir "$WT"
git -C /repo worktree add --detach "$WT" HEAD >/dev/null 2>&1
(git -C "$WT" apply "$M/patch.diff" 2>/dev/null || (cd "$WT" && patch -p1 -s --fuzz=3 < "$M/patch.diff")) || { echo "cannot apply"; git -C /repo worktree remove --force "$WT"; exit 2; }
git -C "$WT" diff > "$D/patch.diff"
git -C /repo worktree remove --force "$WT" >/dev/null 2>&1; rm -rf "$WT"
cp "$M/demo.py" "$D/demo.py"; [ -f "$M/notes.md" ] && cp "$M/notes.md" "$D/notes.md"
/venv/bin/python - "$D" "$PID" "$NEEDS" "$RAN" <<'PY'
import json, sys, subprocess
d, pid, needs, ran = sys.argv[1:5]
head = subprocess.run(["git", "-C", "/repo", "rev-parse", "--short", "HEAD"], capture_output=True, text=True).stdout.strip()
json.dump({"property": pid, "breaks": pid, "needs_to_manifest": needs, "what_i_ran": ran, "repo_head_when_kept": head,
           "apply": "git -C /repo apply " + d + "/patch.diff   (undo: git -C /repo checkout -- .)",
           "demo": "cd /repo && PYTHONPATH=asl-workflow-engine/py /venv/bin/python " + d + "/demo.py  (exit 0 = PASS on clean tree, 1 = FAIL with the change)"},
          open(d + "/meta.json", "w"), indent=1)
PY
echo kept $D
