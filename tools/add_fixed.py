#!/usr/bin/env python3
"""tools/add_fixed.py <PID> <F-number> <commit> <witness path relative to /verif> <bucket patterns comma separated> <summary> <short line text>"""
import json, sys
pid, fn, commit, witness, buckets, summary, short = sys.argv[1:8]
p = "/verif/known_findings.json"
k = json.load(open(p))
fid = "%s-F%s" % (pid, fn)
assert not any(e["id"] == fid for e in k), "exists"
k.append({"property": pid, "id": fid, "status": "fixed", "commit": commit, "summary": summary, "witness": witness, "buckets": buckets.split(","),
          "line": "fixed: property=%s %s %s" % (pid, commit, short)})
json.dump(k, open(p, "w"), indent=1)
print("added", fid)
