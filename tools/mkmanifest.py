#!/venv/bin/python
"""Generate /verif/MANIFEST.json from the table below (kept in one place so it stays valid)."""
import json, os
HERE = os.path.dirname(os.path.dirname(os.path.abspath(__file__)))
PROPS = [json.loads(l) for l in open(os.path.join(HERE, "properties.jsonl"))]

TRUST = ("Trusted base: CPython, Hypothesis, the reference models under lsfverif/ref (calibrated at the start of every run), "
         "and for engine-level checks the fakes of pika/redis/pottery under lsfverif/fakes. Exploration never establishes absence: "
         "'held' means held on the cases counted in the evidence file.")

CHECKS = {
    "C19": dict(
        category="exploration",
        technique="property-based testing with a routing monitor over the simulated broker's operation log (1-3 engine instances, classic/quorum, generated machines x schedules), plus generated Message round-trips and generated address strings compared with a reference reading of the grammar and differentially across the asyncio and blocking transports",
        text=("Affinity: every publish and delivery of every generated run is checked: start events on the shared queue, all later events published by and delivered only to the instance that consumed the start event, through its "
              "durable per-instance queue with a single exclusive consumer; task requests on the function's queue with the owner's reply queue and a correlation id; replies delivered to it; queue-type arguments and prefetch as configured. "
              "Mapping: Messages with generated body / properties / ids / reply-to / 18 expiration variants are sent and received through the messaging layer on both transports and compared field by field; individual acknowledgements "
              "must release exactly one delivery. Address: generated address strings (queue declarations, bindings, subscriptions to existing and declared exchanges, producer targets) must create exactly the entities a reference reading "
              "of the documented grammar describes, identically on both transports."),
        design_ref="DESIGN.md section 5 C19",
        note="Simulated broker and pika stand-ins. " + TRUST,
    ),
    "C20": dict(
        category="exploration",
        technique="model-based (stateful) property testing of the store classes against a dict model: Hypothesis-generated operation sequences incl. reopen, TTL + clock, two clients and explicit placement of cache-invalidation delivery, on a simulated Redis server",
        text=("JSONStore (scratch file), SimpleStore, RedisDictStore and RedisListStore (on lsfverif/fakes/redis + pottery stand-ins, one or two clients with their own connections) run generated sequences of "
              "set / nested update / append / get / get(default) / get_cached_view / delete / contains / iterate / len / set_ttl + advancing the clock / reopen / corrupting the store file / delivering n pending "
              "invalidation messages. Every read is compared with the model (while invalidations are pending a cached view may return any earlier value of the key, afterwards only the current one), the cache may not "
              "exceed its capacity, TTLs must reach the server, definitions must survive reopen, an unreadable file must give an empty store, and at the end every client must see exactly the model."),
        design_ref="DESIGN.md section 5 C20",
        note="The Redis server and pottery are simulated (fidelity assumptions in the evidence file). " + TRUST,
    ),
    "C04": dict(
        category="exploration",
        technique="fault-injection property testing: generated machines x schedules re-run with injected engine crashes (between any two handler invocations, or after any individual broker operation inside a handler) followed by restart with redelivery; differential against the crash-free baseline run of the same case",
        text=("Each generated case is first run without a fault. The engine process is then killed at a drawn (thorough: every) scheduler step or in-handler broker operation: the simulated broker requeues its unacknowledged "
              "deliveries as redelivered, its timers and in-memory tables vanish, workers and the clock keep running for a drawn down time, and a new engine with the same instance id is started. Between-handler crashes must "
              "preserve the baseline's terminal status/output/error, end the execution exactly once and never request a task correlation id twice; in-handler crashes must not lose an announced execution; afterwards nothing may be "
              "left unacknowledged or queued. One and two crashes per run."),
        design_ref="DESIGN.md section 5 C04",
        note="File-backed configuration (execution tables in process memory). " + TRUST,
    ),
    "C18": dict(
        category="exploration",
        technique="mutation-based property testing plus coverage-guided fuzzing: Hypothesis-generated well-formed machines structurally mutated (and arbitrary JSON values / mutated queue events), and an atheris/libFuzzer campaign with a structure-aware JSON tree mutator seeded with machines using every state type; validator totality, validator-accepts => runs without structural failure on the real engine, and poison isolation beside healthy executions under generated schedules",
        text=("Well-formed machines (Pass/Task/Wait/Choice/Succeed/Fail, nested Parallel/Map) are mutated: dropped / wrongly typed / extra fields, retargeted Next/Default/StartAt (nowhere, other scope), "
              "retagged Type, names duplicated across scopes, Next+End, End:false, empty States, Choice rule shapes, renamed states. (A) StateLint.validate must return a list of strings for every value incl. arbitrary JSON; "
              "(B) mutants it accepts are stored with validate_asl on and executed: they must start, end, and not fail with States.Runtime or raise in the engine; (C) rejected mutants / arbitrary objects stored with "
              "validate_asl off and mutated or arbitrary events on the shared and instance queues run beside a healthy in-flight execution: it and a later one succeed, nothing stays unacknowledged or queued, no exception "
              "escapes a handler, an announced poison execution ends."),
        design_ref="DESIGN.md section 5 C18",
        note="Base machines are path-free apart from $.flag/$.items so that run-time failures are structural. " + TRUST,
    ),
    "C16": dict(
        category="exploration",
        technique="boundary-value enumeration (complete window L-2..L+2 at every enforcement point) plus Hypothesis-sampled far sizes, with exact-length payload construction and the accept-iff-size<=L oracle on the real engine and API",
        text=("For the 262144-character data limit the places are StartExecution input (string and object), StartSyncExecution input, SendTaskSuccess output, a task reply, Pass / ResultSelector / Parallel / Map outputs "
              "in terminal and non-terminal position; for the 1048576-character definition limit Create and Update; names (lengths 1, 79..82, every forbidden character, allowed punctuation) for state machines and executions; and the "
              "25000-event history limit with a looping machine. Payloads are built to an exact JSON-text length; at or below the limit the value must come back unchanged, one above it the documented error must be answered "
              "(InvalidExecutionInput, InvalidOutput, InvalidDefinition, InvalidName, States.DataLimitExceeded) and nothing may be stored or started."),
        design_ref="DESIGN.md section 5 C16",
        note="ASCII payloads in json.dumps default spacing only (see assumptions). " + TRUST,
    ),
    "C10": dict(
        category="exploration",
        technique="model-based (stateful) property testing: Hypothesis-generated API call sequences applied to the real front end (Quart and Flask) of a running engine and to a dict reference model; responses, error types and store snapshots compared after every call",
        text=("Sequences of up to 30 Create/Update/Delete/Describe/DescribeForExecution/ListStateMachines/StartExecution/DescribeExecution/ListExecutions calls over small pools of names, role ARNs, "
              "definitions (valid, empty, non-JSON, wrong JSON type, JSON that is no machine), logging configurations, types, inputs, execution references and non-object request bodies are run against "
              "rest_api_asyncio (validate_asl on and off) and rest_api on a live engine over the simulated broker. The model is a map ARN -> record; every response (status, __type, body fields) is "
              "compared with it, a refused call must leave both stores byte-identical, no call may answer 5xx, and at the end the live set and every record are read back."),
        design_ref="DESIGN.md section 5 C10",
        note="Validation order is not asserted (any applicable documented error type is accepted). " + TRUST,
    ),
    "C15": dict(
        category="exploration",
        technique="property-based testing of generated parent/child launch scenarios and task-token callback streams on the real engine over a simulated broker and virtual clock, against a small expected-result model written from the property text (result shape, completion instant, cancellation, token acceptance)",
        text=("Hypothesis draws the integration form (startExecution, .sync, .sync:2, aws-sdk:sfn:startSyncExecution, invoke.waitForTaskToken, startExecution.waitForTaskToken), workflow types, child behaviour "
              "(succeeds, two steps, task error, Fail state, blocked on a Wait / a Task (short or long form) / both inside a nested Parallel / two fan-out levels deep, failing inside a Parallel), parent shape (plain, Parallel with a failing or succeeding sibling, Map), parent time-out "
              "shorter or longer than the child, and the delivery schedule; for tokens it draws per attempt a stream of SendTaskSuccess/SendTaskFailure calls with valid, duplicate, earlier-attempt, other-execution, "
              "truncated, wrong-suffix, three-part, non-base64 and forged tokens and ordinary worker replies. The parent's result fields, the instant and handler step of completion, the absence of child progress after a cut, "
              "HTTP answers (callbacks served by the launching or by a second instance), the acknowledgement order across a launch and the final outcome of every execution are compared with the model."),
        design_ref="DESIGN.md section 5 C15",
        note="Virtual time advances only when no delivery is enabled; ties between callbacks, deadlines and child ends are not generated. " + TRUST,
    ),
    "C06": dict(
        category="exploration",
        technique="property-based testing of generated failure assignments x handlers x schedules on structured fan-outs, with the lifecycle / acknowledgement / history monitors after every step plus outcome-set, once-per-attempt and no-sibling-progress oracles from the broker log",
        text=("Parallel (2..4 branches) and Map (2..4 items) machines whose branches are optional Wait + Task(s) get failure assignments none/one/several/all (task error reply, Task time-out, Fail state, runtime path error), "
              "reply delays that keep siblings in flight, Retry/Catch variants on the fan-out and optionally an enclosing Parallel with a slow sibling; Hypothesis also draws the schedule. Every case is watched by the C02, C03 and "
              "C09 monitors; in addition the outcome must be one of the reference outcomes over the admissible first-failing branches, the fan-out may be started once per attempt and the Catch target entered once, and after a "
              "failing reply was handled no sibling of that attempt may issue a request."),
        design_ref="DESIGN.md section 5 C06",
        note="One listed finding (handled failures of a fan-out nested in another fan-out) is reported as its own class. " + TRUST,
    ),
    "C07": dict(
        category="exploration",
        technique="property-based differential testing of generated Retry/Catch policies and outcome sequences against a reference policy model on a virtual clock (invocation counts, exact request instants, outcome)",
        text=("Hypothesis generates retrier/catcher lists, the retried state kind (Task, Parallel, Map), outcome sequences (custom errors, States.Timeout from a slow worker, ResultPathMatchFailure / IntrinsicFailure / "
              "Runtime raised by the state's own filters, then success or not) and a following state that must retry from a clean counter. The engine runs under the zero-latency canonical schedule on the virtual clock; "
              "the number of invocations, the instant of every request (never before failure_k + Interval*Backoff^k, equal within 1 ms), the catcher chosen, the placement of the Error Output and the final outcome "
              "are compared with a reference calibrated on the specification's own complex retry scenario."),
        design_ref="DESIGN.md section 5 C07",
        note="One listed finding (shared RetryCount across retriers) is reported as its own class so that single-retrier sequences keep gating. " + TRUST,
    ),
    "C05": dict(
        category="exploration",
        technique="exhaustive enumeration of scheduler interleavings (stateless DFS over delivery/reply/timer choices) for small fan-outs plus Hypothesis-sampled schedules and worker delays for larger/nested ones; positional, join-order, exactly-once and in-flight oracles on the broker log",
        text=("Structured Map / Parallel / nested machines whose branch Tasks carry their index are run under every interleaving of branch events, replies and timers (all Map sizes 0..2 x MaxConcurrency 0..n+1, "
              "Parallel of 2 with one or two Tasks per branch, Parallel containing a Map; larger and nested cases in the thorough tier, each enumeration bounded and its completeness reported), and under sampled "
              "schedules with per-item reply delays for sizes up to 4/8. For every schedule: output[i] is branch/item i's reference output, the state after the join is requested only after the last branch reply "
              "reached the engine and exactly once, each item is requested exactly once, and iterations in flight never exceed MaxConcurrency. Also iterations that enter the same nested Parallel twice (each entry a fan-out of its own) "
              "and workers that answer twice (a duplicate fills no slot and launches nothing)."),
        design_ref="DESIGN.md section 5 C05",
        note="All branches succeed here; in the exhaustive part time passes only when nothing else is enabled. " + TRUST,
    ),
    "C09": dict(
        category="exploration",
        technique="property-based testing over generated machines x schedules: history well-formedness monitor after every scheduler step, GetExecutionHistory in both orders, StateEntered/StateExited differential against the reference interpreter's trace",
        text=("For every generated run (success and failure paths, retries, catches, Parallel/Map, STANDARD and EXPRESS, 1-3 executions, deviating schedules) the stored history is checked after each step "
              "(ids 1..n, previousEventId, non-decreasing timestamps, starts with ExecutionStarted+input, append-only, exactly one terminal event that is last and agrees with DescribeExecution, nothing appended "
              "afterwards, EXPRESS stores nothing); GetExecutionHistory must equal the store and reverseOrder its reverse; state events must agree with the reference run."),
        design_ref="DESIGN.md section 5 C09",
        note="Trace differential only where the reference is deterministic; a caught state may or may not log StateExited; task lifecycle events are checked for numbering only. " + TRUST,
    ),
    "C11": dict(
        category="exploration",
        technique="property-based testing over generated machines x schedules x store configurations with a cross-surface agreement monitor (record / notification / history / API views through every instance)",
        text=("After every scheduler step the stored execution record, the latest status-change notification and the last history event must tell the same status/input/output/error; every status change is "
              "published once to <stateMachineArn>.<status> in the CloudWatch shape with millisecond dates while the record keeps seconds; at the end DescribeExecution, ListExecutions and GetExecutionHistory "
              "through each engine instance equal the store (file-backed and simulated-Redis configurations, one or two instances)."),
        design_ref="DESIGN.md section 5 C11",
        note="Redis is simulated (lsfverif/fakes/redis, pottery); record reads happen between handler invocations. " + TRUST,
    ),
    "C02": dict(
        category="exploration",
        technique="property-based testing over generated machines x generated schedules with a lifecycle monitor evaluated after every scheduler step (notification sequence, record immutability and well-formedness, termination at quiescence)",
        text=("The real engine stack runs 1-3 concurrent executions (API starts and raw start events with/without message ids or with a client-chosen execution ARN; some runs continue past the expiry back stop, with or without the ended execution's stragglers held back) of generated machines on the simulated broker; Hypothesis chooses, step by step, "
              "which enabled delivery / timer expiry / clock advance happens next. After every step the monitor checks RUNNING -> exactly one terminal notification per execution, that a terminal record never "
              "changes and is well-formed, and at quiescence that every started execution is terminal."),
        design_ref="DESIGN.md section 5 C02",
        note="Schedules are sequences of atomic handler invocations (the engine is single-threaded on its event loop); thread races of the blocking deployment are out of reach. " + TRUST,
    ),
    "C03": dict(
        category="exploration",
        technique="property-based testing over generated machines x generated schedules with a monitor on the simulated broker's operation log (exactly-once acks, ack-after-publish ordering per handler context, carrier invariant between handlers, drain at quiescence)",
        text=("Every broker operation (publish, deliver, ack, timer set/fire/cancel) is logged with the handler context it happened in. The monitor checks that each delivery to the engine is acknowledged exactly "
              "once, that no event/notification publish attributable to a message happens after that message's ack, that a RUNNING execution always has a carrier between handler invocations, and that at "
              "quiescence the broker and the engine's dictionaries (unacknowledged_messages, branch_metadata, pending_requests, cancellers, orphaned_responses, timers) are empty."),
        design_ref="DESIGN.md section 5 C03",
        note="Carrier invariant evaluated between handler invocations (not after each individual operation); orphan retention shortened to 3 s; one listed finding (branch_metadata retained after a failed fan-out). " + TRUST,
    ),
    "C17": dict(
        category="exploration",
        technique="exhaustive enumeration of short names over the ARN-significant alphabet plus Hypothesis long names; round-trip / derivation laws on arn.py and the validators; engine-level identifier agreement across derivation sites",
        text=("All names up to length 3 (quick) / 4 (thorough) over letters, digits, '.', '-', '_', space and every rejected punctuation character are enumerated: accepted names must mint state machine and "
              "execution ARNs that parse back to their parts, rebuild to the same string and survive the split-at-last-colon derivation; both front ends must agree on acceptance and on the 80/81 boundary. "
              "For accepted names the engine is run (STANDARD, EXPRESS, crash+restart, expiry back stop) and every place that reports identifiers must agree."),
        design_ref="DESIGN.md section 5 C17",
        note="Control characters are represented by line feed, tab and DEL."  + TRUST,
    ),
    "C08": dict(
        category="exploration",
        technique="exhaustive RFC 3339 offset/fraction sweep against an integer-arithmetic reference, plus Hypothesis-generated deadline-race scenarios on a virtual clock (delivery delays, reply delays around deadlines, crash+redelivery, engine time zone)",
        text=("parse_rfc3339_datetime is compared with an independent integer-arithmetic parser on every offset -23:59..+23:59 and Z x 0..9 fractional digits x 6 base instants (complete enumeration). "
              "On the virtual clock the real engine runs Wait (Seconds/SecondsPath/Timestamp/TimestampPath, late delivery, crash and redelivery), Task TimeoutSeconds with replies just before/after/never "
              "(with Retry/Catch on States.Timeout/States.ALL), machine TimeoutSeconds with Retry/Catch that must not intercept it, and cancelled timers that must never fire; completion instants are compared "
              "exactly (never early beyond 2 us, equal within 1 ms) with the engine's local zone drawn from UTC, +05:30, -03:30, +12:45."),
        design_ref="DESIGN.md section 5 C08",
        note="Time passes only where the harness advances the virtual clock; ties (reply exactly at a deadline) and leap seconds are not generated; HeartbeatSeconds is not implemented by the engine and not in the statement. " + TRUST,
    ),
    "C14": dict(
        category="exploration",
        technique="exhaustive operator x value x constant table plus Hypothesis-generated Boolean rule trees, each run as a one-Choice machine through the real engine and compared with a typed reference evaluator",
        text=("All 39 comparison operators x 21 variable values (missing, null, booleans, numbers, strings, timestamps in Z / whole-hour / minute-offset notation, non-timestamps, [], {}) "
              "x typed constants in literal and *Path form, and every StringMatches pattern of length <= 3 over {a * ? [ ] .}, are enumerated completely; And/Or/Not trees, ordered rule "
              "lists with/without Default and InputPath + *Path operands are generated. The observable is which marker state the engine reaches (or States.NoChoiceMatched)."),
        design_ref="DESIGN.md section 5 C14",
        note="Is* (other than IsPresent) on a missing Variable and *Path operands resolving to nothing are not asserted. " + TRUST,
    ),
    "C13": dict(
        category="exploration",
        technique="property-based differential testing of intrinsic expressions / payload templates against a hand-written reference parser+evaluator; ill-formed-input exception typing; canary for code execution; PYTHONHASHSEED metamorphic runs in sub-processes",
        text=("Hypothesis generates intrinsic expressions from the function grammar (all Appendix-B functions, typed and ill-typed arguments, nesting to depth 2/3, "
              "strings with , ' \\ ( ) [ ] ^, Format placeholders and escaped braces), ill-formed variants and payload templates; each is evaluated by "
              "evaluate_payload_template and by an independent recursive-descent reference; values, failure kinds (IntrinsicFailure / path failure, never another exception), "
              "non-mutation, no reachability of interpreter internals and independence from PYTHONHASHSEED are checked; a slice runs through one-state executions to check the "
              "States.IntrinsicFailure / States.Runtime mapping, and a Map-state family checks that an ItemSelector is evaluated per item against the Map state's context in "
              "every MaxConcurrency block and that a selector that cannot be evaluated fails the Map state cleanly (with and without a Catch). ArrayRange is generated at exactly 999..1002 items and up to "
              "10^100 items with bounds up to 10^30 in a process whose address space is bounded, so that building the array instead of refusing it shows as MemoryError; a coverage-guided (atheris) family "
              "runs the same oracle on mutated expression texts."),
        design_ref="DESIGN.md section 5 C13",
        note="Only the reference's verdicts are asserted; cases it marks unspecified (non-canonical base64, empty split segments, brace use outside Format, ...) are skipped and counted. " + TRUST,
    ),
    "C01": dict(
        category="exploration",
        technique="property-based differential testing: Hypothesis grammar-generated (machine, input, task behaviour) triples, real engine stack on a simulated broker vs an independent reference interpreter",
        text=("Each generated state machine (Pass/Task/Choice/Wait/Succeed/Fail/Parallel/Map, filters whose order matters, Retry/Catch, STANDARD and EXPRESS) is "
              "executed by the unmodified engine (StateEngine + EventDispatcher + TaskDispatcher + asyncio AMQP transport + REST API) on a deterministic fake broker "
              "under the canonical FIFO schedule; terminal status, output and error name from the status-change notification and from DescribeExecution are compared "
              "with a reference interpreter written from the States Language specification. Exploration is the right level: the property quantifies over programs x inputs."),
        design_ref="DESIGN.md section 5 C01",
        note="Canonical schedule only; definite paths; Cause texts not compared; outcomes the specification leaves open are skipped and counted. " + TRUST,
    ),
    "C12": dict(
        category="exploration",
        technique="property-based testing: exhaustive small-alphabet enumeration + Hypothesis random documents, algebraic laws against a reference path model",
        text=("Every document of depth<=2/width<=2 over a 6-leaf alphabet x every definite path of length<=2 (dot and bracket rendering) is enumerated "
              "and compared with an independent reference (read, non-mutation, miss => PathMatchFailure, dot==bracket); placements (put-get, frame, finite tree, "
              "aliasing results, exception typing) are checked on a strided sample plus Hypothesis-generated deeper documents. Exploration is the right level: "
              "the laws are algebraic over inputs and the functions are pure."),
        design_ref="DESIGN.md section 5 C12",
        note="Paths restricted to the definite Reference Path grammar (keys without quote/backslash/dot); null on the way of a ResultPath is accepted either way. " + TRUST,
    ),
}

NOT_YET = "check not built yet in this session (design in DESIGN.md section 5; construction order in section 7)"


def main():
    checks, na = [], []
    for p in PROPS:
        pid = p["id"]
        c = CHECKS.get(pid)
        if not c:
            na.append({"property_id": pid, "reason": NOT_YET})
            continue
        checks.append({
            "property_id": pid,
            "quick_cmd": "./check %s --tier quick" % pid,
            "thorough_cmd": "./check %s --tier thorough" % pid,
            "evidence_file": "/verif/evidence/%s.json" % pid,
            "replay_cmd_template": "./check %s --replay {path}" % pid,
            "engine": "lsfverif",
            "level_claimed": {"category": c["category"], "text": c["text"], "design_ref": c["design_ref"]},
            "level_note": c["note"],
            "technique": c["technique"],
        })
    man = {
        "version": 1,
        "setup_cmd": "(/venv/bin/python -c 'import hypothesis' 2>/dev/null || /venv/bin/pip install --no-index --find-links /opt/veriftools/wheels hypothesis) && (PYTHONPATH=/verif/.deps /venv/bin/python -c 'import atheris' 2>/dev/null || /venv/bin/pip install -q --no-index --find-links /opt/veriftools/wheels --target /verif/.deps atheris)",
        "hooks": {
            "guard": "LSF_VERIF",
            "enable": "no source hooks exist: checks import /repo's working tree directly (env LSF_VERIF=1 is exported by ./check for any future guarded hook); third-party modules pika/redis/pottery are substituted by fakes on sys.path",
            "baseline_off_cmd": "cd /repo && env -u LSF_VERIF /venv/bin/python -m pytest -ra -q -p no:cacheprovider --timeout=900 --continue-on-collection-errors",
            "source_commits": [],
            "add_only": True,
        },
        "engines": [{"name": "lsfverif", "path": "/verif/lsfverif", "serves_properties": [c["property_id"] for c in checks],
                     "kind_free_text": "Python property-based testing framework: Hypothesis strategies + exhaustive enumerators, reference models, simulated AMQP broker (fake pika) with virtual clock, collect-then-report campaign runner"}],
        "checks": checks,
        "not_applicable": na,
        "notes": "Fixes of genuine defects are 'fix:' commits in /repo, listed in known_findings.json with status fixed. See DESIGN.md.",
    }
    with open(os.path.join(HERE, "MANIFEST.json"), "w") as fp:
        json.dump(man, fp, indent=1)
    print("MANIFEST.json: %d checks, %d not_applicable" % (len(checks), len(na)))


if __name__ == "__main__":
    main()
