#!/usr/bin/env python3
"""Regenerate the findings and seeded-change tables of DESIGN.md from known_findings.json and seeded/*/meta.json."""
import json, glob, os, re
HERE = os.path.dirname(os.path.dirname(os.path.abspath(__file__)))
k = json.load(open(os.path.join(HERE, "known_findings.json")))
lines = []
opens = [e for e in k if e["status"] == "open"]
fixed = [e for e in k if e["status"] == "fixed"]
lines.append("**Open (recorded, reported as `KNOWN-FINDING`, %d).** Each names the witness that must still reproduce for the entry to suppress anything, and the bucket patterns it covers.\n" % len(opens))
lines.append("| id | what fails | why recorded rather than repaired |")
lines.append("|---|---|---|")
for e in opens:
    lines.append("| %s | %s | %s |" % (e["id"], e["summary"].replace("|", "\\|"), e.get("why_not_fixed", "").replace("|", "\\|")))
lines.append("")
lines.append("**Repaired (%d `fix:` commits in /repo; each a minimal unguarded change, suite 66/66 after each).**\n" % len(set(e["commit"] for e in fixed)))
lines.append("| id | commit | what failed |")
lines.append("|---|---|---|")
for e in sorted(fixed, key=lambda e: e["id"]):
    lines.append("| %s | %s | %s |" % (e["id"], e.get("commit", ""), e["summary"].replace("|", "\\|")))
ftab = "\n".join(lines)
rows = ["| seeded change | needs to manifest | result |", "|---|---|---|"]
for d in sorted(glob.glob(os.path.join(HERE, "seeded", "*"))):
    m = json.load(open(os.path.join(d, "meta.json")))
    rows.append("| %s | %s | %s |" % (os.path.basename(d), m.get("needs_to_manifest", "").replace("|", "\\|"), (m.get("what_i_ran", "") + ((" — SUPERSEDED: " + m["superseded"]) if m.get("superseded") else "") + ((" — OUT OF DOMAIN: " + m["out_of_domain"]) if m.get("out_of_domain") else "")).replace("|", "\\|")))
stab = "\n".join(rows)
p = os.path.join(HERE, "DESIGN.md")
s = open(p).read()
s = re.sub(r"<!-- FINDINGS-TABLE-BEGIN -->.*?<!-- FINDINGS-TABLE-END -->", lambda m: "<!-- FINDINGS-TABLE-BEGIN -->\n" + ftab + "\n<!-- FINDINGS-TABLE-END -->", s, flags=re.S)
s = re.sub(r"<!-- SEEDED-TABLE-BEGIN -->.*?<!-- SEEDED-TABLE-END -->", lambda m: "<!-- SEEDED-TABLE-BEGIN -->\n" + stab + "\n<!-- SEEDED-TABLE-END -->", s, flags=re.S)
open(p, "w").write(s)
print("DESIGN.md tables: %d open, %d fixed, %d seeded" % (len(opens), len(fixed), len(rows) - 2))
