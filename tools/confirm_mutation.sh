#!/bin/bash
# tools/confirm_mutation.sh <mutation dir (patch.diff, demo.py)> <ID> [more check IDs]
# Confirms in a scratch worktree: demo passes on clean tree, patch applies, repo suite still matches baseline,
# demo fails with the patch; then runs the given checks against the mutated tree.
M="$(readlink -f "$1")"; shift
WT=$(mktemp -d /var/tmp/lsf-seed.XXXXXX); rmdir "$WT"
git -C /repo worktree add --detach "$WT" HEAD >/dev/null 2>&1 || { echo "worktree failed"; exit 2; }
run_demo() { (cd "$WT" && PYTHONPATH=asl-workflow-engine/py PYTHONDONTWRITEBYTECODE=1 LOG_LEVEL=CRITICAL timeout 300 /venv/bin/python "$M/demo.py" >/dev/null 2>&1; echo $?); }
clean=$(run_demo)
if ! git -C "$WT" apply "$M/patch.diff" 2>/dev/null && ! (cd "$WT" && patch -p1 -s --fuzz=3 < "$M/patch.diff" >/dev/null 2>&1); then echo "PATCH-DOES-NOT-APPLY"; git -C /repo worktree remove --force "$WT"; exit 2; fi
suite=$(/verif/tools/repo_tests.sh "$WT" | head -1)
mut=$(run_demo)
echo "demo_clean_rc=$clean demo_mutated_rc=$mut suite: $suite"
cd /verif
for id in "$@"; do
  out=$(LSF_REPO="$WT" ./check "$id" --tier "${TIER:-quick}" 2>&1); rc=$?
  echo "  $id rc=$rc violations=$(echo "$out" | grep -c '^VIOLATION') $(echo "$out" | grep -m1 'bucket=' | cut -c1-200)"
done
git -C /repo worktree remove --force "$WT" >/dev/null 2>&1; rm -rf "$WT"
