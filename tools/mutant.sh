#!/bin/bash
# tools/mutant.sh <patch.diff> <ID> [<ID> ...]   (env: TIER, VERIF_SEED)
# Apply a patch to a scratch worktree of /repo (outside /repo and /verif), run the given checks against it
# through LSF_REPO, print one line per check, remove the worktree.
PATCH="$(readlink -f "$1")"; shift
WT=$(mktemp -d /var/tmp/lsf-mut.XXXXXX)
rmdir "$WT"
git -C /repo worktree add --detach "$WT" HEAD >/dev/null 2>&1 || { echo "worktree failed"; exit 2; }
if ! git -C "$WT" apply "$PATCH" 2>/dev/null; then
  if ! (cd "$WT" && patch -p1 -s < "$PATCH"); then echo "PATCH-DOES-NOT-APPLY $PATCH"; git -C /repo worktree remove --force "$WT"; exit 2; fi
fi
cd /verif
for id in "$@"; do
  out=$(LSF_REPO="$WT" ./check "$id" --tier "${TIER:-quick}" 2>&1); rc=$?
  nv=$(echo "$out" | grep -c '^VIOLATION')
  echo "$id rc=$rc violations=$nv $(echo "$out" | grep -m1 'bucket=' | cut -c1-220)"
done
git -C /repo worktree remove --force "$WT" >/dev/null 2>&1
rm -rf "$WT"
