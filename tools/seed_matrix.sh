#!/bin/bash
# tools/seed_matrix.sh [TIER]  - run every stored seeded change against the check(s) that are meant to catch it (meta.json "caught_by", default its own property)
# and print one line per change: applies? / which checks report a VIOLATION. Uses scratch worktrees outside /repo and /verif.
TIER="${1:-quick}"
cd /verif
run_one() {
  d="$1"; name=$(basename "$d")
  ids=$(/venv/bin/python -c "import json,sys; m=json.load(open('$d/meta.json')); print(' '.join(m.get('caught_by') or [m['property']]))")
  out=$(TIER=$TIER tools/mutant.sh "$d/patch.diff" $ids 2>&1)
  if echo "$out" | grep -q PATCH-DOES-NOT-APPLY; then echo "$name PATCH-DOES-NOT-APPLY"; return; fi
  caught=$(echo "$out" | awk '$2=="rc=1"{printf "%s ", $1}')
  missed=$(echo "$out" | awk '$2=="rc=0"{printf "%s ", $1}')
  echo "$name caught_by=[${caught% }] silent=[${missed% }]"
}
export -f run_one; export TIER
ls -d seeded/*/ | sed 's#/$##' | while read d; do grep -q '"superseded"\|"out_of_domain"' $d/meta.json || echo $d; done | xargs -P 4 -I{} bash -c 'run_one {}' | sort
