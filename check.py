#!/venv/bin/python
"""
/verif/check <ID> [--tier quick|thorough] [--replay FILE]

Thin dispatcher: imports lsfverif.checks.<id>.main(tier, seed, replay) and exits
with its status (0 held / 1 VIOLATION / 2 harness error).
"""
import os, sys, importlib, argparse, traceback

sys.dont_write_bytecode = True
HERE = os.path.dirname(os.path.abspath(__file__))
sys.path.insert(0, HERE)


def main():
    ap = argparse.ArgumentParser()
    ap.add_argument("pid")
    ap.add_argument("--tier", default=os.environ.get("VERIF_TIER") or "quick")
    ap.add_argument("--replay", default=None)
    a = ap.parse_args()
    os.environ["VERIF_TIER"] = a.tier
    os.environ.setdefault("PYTHONHASHSEED", "0")
    from lsfverif import env
    env.TIER = a.tier
    try:
        mod = importlib.import_module("lsfverif.checks." + a.pid.lower())
        rc = mod.main(a.tier, env.SEED, a.replay)
    except SystemExit:
        raise
    except BaseException:
        traceback.print_exc()
        print("HARNESS-ERROR property=%s check crashed" % a.pid)
        rc = 2
    sys.stdout.flush()
    sys.exit(rc)


if __name__ == "__main__":
    main()
