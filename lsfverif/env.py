"""
Environment: where the code under test lives, seeds, tiers, scratch dirs.

The code under test is always imported from $LSF_REPO (default /repo) so that
every check runs against /repo's *current working tree*.  Python is not
compiled, so "rebuild" = fresh interpreter + no byte-code cache.
"""
import os, sys, shutil, atexit, logging

VERIF_ROOT = os.path.dirname(os.path.dirname(os.path.abspath(__file__)))
REPO = os.environ.get("LSF_REPO", "/repo")
REPO_PY = os.path.join(REPO, "asl-workflow-engine", "py")
FAKES = os.path.join(VERIF_ROOT, "lsfverif", "fakes")

SEED = int(os.environ.get("VERIF_SEED", "1") or "1")
TIER = os.environ.get("VERIF_TIER", "quick") or "quick"

sys.dont_write_bytecode = True


def setup_paths(fakes=True):
    """Put the repo (and the third-party fakes) first on sys.path."""
    # The hooks guard (MANIFEST.hooks.guard).  No hook exists in /repo today;
    # the variable is set so that any future guarded hook is enabled for checks.
    os.environ.setdefault("LSF_VERIF", "1")
    # Quieten the engine's logger: it logs at INFO to stdout by default.
    os.environ.setdefault("LOG_LEVEL", "CRITICAL")
    for p in ([FAKES] if fakes else []) + [REPO_PY]:
        if p in sys.path:
            sys.path.remove(p)
    sys.path.insert(0, REPO_PY)
    if fakes:
        sys.path.insert(0, FAKES)


_workdir = None
_workdir_pid = None


def workdir():
    """Per-process scratch directory under /verif/.work/<main pid>/, removed when the main process exits."""
    global _workdir, _workdir_pid
    pid = os.getpid()
    if _workdir is None or _workdir_pid != pid or not os.path.isdir(_workdir):
        root = os.environ.get("LSF_WORK_ROOT")
        if not root or not os.path.isdir(root):
            root = os.path.join(VERIF_ROOT, ".work", "p%d" % pid)
            os.makedirs(root, exist_ok=True)
            os.environ["LSF_WORK_ROOT"] = root
            atexit.register(shutil.rmtree, root, True)
        d = os.path.join(root, "c%d" % pid)
        os.makedirs(d, exist_ok=True)
        _workdir, _workdir_pid = d, pid
    return _workdir


def silence_logging():
    logging.disable(logging.CRITICAL)


def cap_memory(gib=3.0):
    """Bound this process's address space so that code which tries to build something enormous gets a MemoryError (which the oracles see as an
    arbitrary exception) instead of taking the machine down.  Only lowers the limit; returns the limit in force."""
    import resource
    soft, hard = resource.getrlimit(resource.RLIMIT_AS)
    want = int(gib * (1 << 30))
    if soft == resource.RLIM_INFINITY or soft > want:
        resource.setrlimit(resource.RLIMIT_AS, (want, hard))
        return want
    return soft
