"""
Grammar-based generators for well-formed state machines, co-generated with their
input and the fixed behaviour of their tasks.  Machines are generated *along the
executed path*: after each state is drawn the reference interpreter computes the
data that flows on, so that later paths / templates / choice rules refer to
members that really exist (or, for a controlled fraction, deliberately do not).
"""
import copy, json

from hypothesis import strategies as st

from ..ref import interp as ri
from ..ref import paths as rp

LEAVES = [0, 1, -1, 2, 1.5, True, False, None, "", "a", "b", "A"]
KEYS = ["a", "b", "c", "k", "n", "s", "o", "x", "y", "items", "r", "flag"]


def leaves():
    return st.sampled_from(LEAVES)


def small_json(max_leaves=6):
    return st.recursive(leaves(), lambda ch: st.lists(ch, max_size=3) | st.dictionaries(st.sampled_from(["a", "b", "k", "x"]), ch, max_size=3),
                        max_leaves=max_leaves)


@st.composite
def inputs(draw):
    doc = {}
    if draw(st.integers(0, 9)) < 9:
        doc["a"] = draw(small_json(4))
    doc["n"] = draw(st.integers(-3, 5))
    doc["s"] = draw(st.sampled_from(["", "a", "b", "A", "a b", "x-1"]))
    if draw(st.integers(0, 9)) < 8:
        n = draw(st.integers(0, 4))
        kind = draw(st.sampled_from(["leaf", "obj"]))
        if kind == "leaf":
            # (the last two are ordinary strings that happen to look like the engine's former in-band slot markers)
            doc["items"] = draw(st.lists(st.sampled_from([0, 1, 2, 3, "a", "b", True, None, "__CAUGHT__", "__TERMINATED__"]), min_size=n, max_size=n, unique_by=lambda v: json.dumps(v)))
        else:
            ks = draw(st.lists(st.integers(0, 9), min_size=n, max_size=n, unique=True))
            doc["items"] = [{"k": k, "v": draw(leaves())} for k in ks]
    if draw(st.booleans()):
        doc["o"] = {"x": draw(leaves()), "y": {"z": draw(leaves())}}
    doc["flag"] = draw(st.booleans())
    return doc


def existing_paths(data, maxdepth=3):
    """Definite paths (as step lists) that exist in `data`, including the root."""
    out = [[]]

    def walk(v, steps):
        if len(steps) >= maxdepth:
            return
        if isinstance(v, dict):
            for k in sorted(v):
                if k and "'" not in k and "." not in k and not k.isdigit():
                    out.append(steps + [k])
                    walk(v[k], steps + [k])
        elif isinstance(v, list):
            for i in range(min(len(v), 3)):
                out.append(steps + [i])
                walk(v[i], steps + [i])
    walk(data, [])
    return out


class Names:
    def __init__(self):
        self.n = 0

    def fresh(self, prefix="S"):
        self.n += 1
        return "%s%d" % (prefix, self.n)


class GenCtx:
    """Everything the recursive generator threads through."""

    def __init__(self, draw, cfg):
        self.draw = draw
        self.cfg = cfg
        self.names = Names()
        self.oracle = {}          # fn -> spec
        self.features = set()
        self.budget = cfg.get("max_states", 6)
        self.miss_used = False
        self.in_failing_branch = False
        self.allow_miss = cfg.get("misses", True) and draw(st.integers(0, 9)) == 0

    def feature(self, f):
        self.features.add(f)

    def eval_state(self, name, state, data, ctx=None):
        """Run one generated state with the reference; -> ("ok", next, out) | ("err", StateError) | ("unspec",)"""
        it = ri.Interp({"StartAt": name, "States": {name: state}}, copy.deepcopy(self.oracle))
        c = copy.deepcopy(ctx) if ctx else {"Execution": {"Input": {}}, "StateMachine": {"Id": None}, "State": {}}
        try:
            nxt, out, _ = it.run_state(name, copy.deepcopy(state), copy.deepcopy(data), 0.0, c, [])
            return ("ok", nxt, out)
        except ri.StateError as e:
            return ("err", e)
        except ri.Unspec:
            return ("unspec",)


def draw_path(g, data, want="any", allow_miss=True):
    """A read path into `data`: (path string, missed?)."""
    d = g.draw
    cands = existing_paths(data)
    if want == "container":
        cands = [p for p in cands if isinstance(rp.read(data, p), (dict, list))] or [[]]
    elif want == "array":
        cands = [p for p in cands if isinstance(rp.read(data, p), list)]
        if not cands:
            return None, False
    elif want == "number":
        cands = [p for p in cands if isinstance(rp.read(data, p), (int, float)) and not isinstance(rp.read(data, p), bool)]
        if not cands:
            return None, False
    elif want == "string":
        cands = [p for p in cands if isinstance(rp.read(data, p), str)]
        if not cands:
            return None, False
    steps = d(st.sampled_from(cands))
    miss = False
    if allow_miss and g.allow_miss and g.cfg.get("misses", True) and not g.miss_used and d(st.integers(0, 99)) < g.cfg.get("miss_pct", 25):
        steps = steps + ["zz"]
        miss = True
        g.miss_used = True
        g.feature("path-miss")
    style = "bracket" if d(st.integers(0, 9)) == 0 else "dot"
    return rp.unparse(steps, style), miss


def draw_template(g, data, in_map=False, depth=0):
    d = g.draw
    if depth == 0 and d(st.integers(0, 11)) == 0:
        g.feature("template-empty")
        return {}
    n = d(st.integers(1, 3))
    tpl = {}
    for i in range(n):
        key = d(st.sampled_from(["p", "q", "k", "a", "m"])) + ("" if i == 0 else str(i))
        kind = d(st.sampled_from(["lit", "path", "path", "ctx", "intrinsic", "nest"] + (["item", "item", "ctx"] if in_map else [])))
        if kind == "lit":
            tpl[key] = d(small_json(3))
        elif kind == "path":
            p, _ = draw_path(g, data)
            tpl[key + ".$"] = p
            g.feature("template-path")
        elif kind == "ctx":
            # (inside an ItemSelector $$.State.Name is the Map state's name for every item, not the name of the Iterator's first state)
            tpl[key + ".$"] = d(st.sampled_from(["$$.Execution.Input", "$$.State.Name", "$$.Execution.Input.n"] + (["$$.State.Name"] * 3 if in_map else [])))
            g.feature("template-context")
        elif kind == "item":
            tpl[key + ".$"] = d(st.sampled_from(["$$.Map.Item.Value", "$$.Map.Item.Index"]))
            g.feature("template-map-item")
        elif kind == "intrinsic":
            np_, _ = draw_path(g, data, "number", allow_miss=False)
            sp_, _ = draw_path(g, data, "string", allow_miss=False)
            ap_, _ = draw_path(g, data, "array", allow_miss=False)
            opts = ["States.Array(1, 'x', null)"]
            if np_:
                opts += ["States.MathAdd(%s, 1)" % np_, "States.Array(%s)" % np_]
            if sp_:
                opts += ["States.Format('v={}', %s)" % sp_, "States.Base64Encode(%s)" % sp_]
            if ap_:
                opts += ["States.ArrayLength(%s)" % ap_]
            tpl[key + ".$"] = d(st.sampled_from(opts))
            g.feature("template-intrinsic")
        else:
            if depth < 1:
                tpl[key] = draw_template(g, data, in_map, depth + 1)
            else:
                tpl[key] = d(leaves())
    return tpl


def draw_result_path(g, raw, overlapping_key=None):
    d = g.draw
    opts = ["$", None, "$.r", "$.r.q", "$.a"]
    if isinstance(raw, dict):
        for k, v in raw.items():
            if isinstance(v, dict) and k.isidentifier():
                opts.append("$.%s.new" % k)
            if isinstance(v, list) and v and k.isidentifier():
                opts.append("$.%s[0]" % k)
    if overlapping_key:
        opts += [overlapping_key] * 3
    if g.allow_miss and g.cfg.get("misses", True) and not g.miss_used and d(st.integers(0, 99)) < 15:
        g.miss_used = True
        g.feature("resultpath-unplaceable")
        return "$.n.deep" if isinstance(raw, dict) and "n" in raw else "$[7]"
    return d(st.sampled_from(opts))


def add_filters(g, state, raw, kinds=("InputPath", "Parameters", "ResultPath", "OutputPath"), in_map=False):
    """Decorate `state` with path-pipeline fields whose order matters."""
    d = g.draw
    eff = raw
    if "InputPath" in kinds and d(st.integers(0, 9)) < 4:
        if d(st.integers(0, 19)) == 0:
            state["InputPath"] = None
            eff = {}
            g.feature("InputPath-null")
        else:
            p, miss = draw_path(g, raw, "container")
            state["InputPath"] = p
            if not miss:
                eff = rp.read(raw, rp.parse(p))
            g.feature("InputPath")
    if "Parameters" in kinds and d(st.integers(0, 9)) < 4:
        state["Parameters"] = draw_template(g, eff, in_map)
        g.feature("Parameters")
    return eff


def add_output_filters(g, state, raw, result_known=None):
    d = g.draw
    over = None
    if d(st.integers(0, 9)) < 3:
        over = "$.r"
    if "ResultPath" not in state and d(st.integers(0, 9)) < 6:
        state["ResultPath"] = draw_result_path(g, raw, over)
        g.feature("ResultPath")
    if d(st.integers(0, 9)) < 3:
        # OutputPath that overlaps the ResultPath target when possible
        rpv = state.get("ResultPath", "$")
        if rpv not in (None, "$") and d(st.booleans()):
            state["OutputPath"] = rpv.split("[")[0] if "[" in rpv else rpv.rsplit(".", 1)[0] if rpv.count(".") > 1 else rpv
        else:
            state["OutputPath"] = d(st.sampled_from(["$", "$.a", "$.r", "$.o", "$.items", None]))
        g.feature("OutputPath")


# --------------------------------------------------------------- the states
def gen_pass(g, name, data):
    d = g.draw
    s = {"Type": "Pass"}
    eff = add_filters(g, s, data)
    if d(st.integers(0, 9)) < 5:
        # (now and then an object whose 'Error' member is present but falsy: ordinary data, unlike the truthy in-band convention of finding C01-F8)
        s["Result"] = d(st.one_of(small_json(4), small_json(4), small_json(4), small_json(4),
                                  st.sampled_from([{"Error": None, "v": 1}, {"Error": "", "Cause": "c"}, {"Error": 0}, {"Error": False, "k": [1]}, {"Result": 42, "Error": None}])))
        g.feature("Pass-Result")
    add_output_filters(g, s, data)
    if "Result" not in s and s.get("ResultPath") not in (None, "$", ) and "ResultPath" in s:
        g.feature("Pass-ResultPath-without-Result")
    return s


def gen_task(g, name, data, allow_errors=True, in_map=False, fn=None, handlers=True):
    d = g.draw
    fn = fn or ("f_" + name)
    s = {"Type": "Task", "Resource": "arn:aws:rpcmessage:local::function:" + fn}
    add_filters(g, s, data, in_map=in_map)
    if g.cfg.get("long_form", True) and d(st.integers(0, 6)) == 0:
        # the long-form invocation: Resource = ...:rpcmessage:invoke, Parameters = {FunctionName, Payload}
        payload = s.pop("Parameters", None)
        s["Resource"] = "arn:aws:states:local::rpcmessage:invoke"
        s["Parameters"] = {"FunctionName": "arn:aws:rpcmessage:local::function:" + fn}
        if payload is not None:
            s["Parameters"]["Payload"] = payload
        else:
            s["Parameters"]["Payload.$"] = "$"
        g.feature("task-long-form-invoke")
    kind = d(st.sampled_from(["echo", "echo", "value", "value", "error", "error", "retry-ok"])) if allow_errors and g.cfg.get("task_errors", True) \
        else d(st.sampled_from(["echo", "value"]))
    errname = d(st.sampled_from(["ErrA", "ErrB", "Custom.Error", "States.TaskFailed"]))
    if kind == "echo":
        seq = [{"ok": "$echo"}]
    elif kind == "value":
        seq = [{"ok": d(small_json(5))}]
        g.feature("task-value")
    elif kind == "error":
        seq = [{"err": errname, "msg": "boom"}]
        g.feature("task-error")
    else:
        nfail = d(st.integers(1, 2))
        seq = [{"err": errname, "msg": "boom"}] * nfail + [{"ok": "$echo"}]
        g.feature("task-error-then-ok")
    if seq[0].get("ok") not in (None, "$echo") and isinstance(seq[0]["ok"], dict) and ("Error" in seq[0]["ok"] or "errorType" in seq[0]["ok"]):
        seq = [{"ok": "$echo"}]
    g.oracle[fn] = {"seq": seq}
    if kind in ("error", "retry-ok") and handlers:
        mode = d(st.sampled_from(["none", "retry", "catch", "catch", "both", "both"])) if kind == "error" else d(st.sampled_from(["retry", "both", "retry"]))
        if mode in ("retry", "both"):
            s["Retry"] = [{"ErrorEquals": d(st.sampled_from([[errname], ["States.ALL"], ["Other", errname]])),
                           "IntervalSeconds": d(st.integers(1, 3)), "MaxAttempts": d(st.integers(0, 3)),
                           "BackoffRate": d(st.sampled_from([1.0, 1.5, 2.0]))}]
            g.feature("Retry")
        if mode in ("catch", "both"):
            c = {"ErrorEquals": d(st.sampled_from([[errname], [errname], ["States.ALL"], ["States.ALL"], ["Nope"]])), "Next": None}
            rpth = d(st.sampled_from(["absent", "$", "$.err", None, "$.a.e"]))
            if rpth != "absent":
                c["ResultPath"] = rpth
            s["Catch"] = [c]
            g.feature("Catch")
    if d(st.integers(0, 9)) < 3:
        s["ResultSelector"] = {"sel.$": "$", "lit": d(leaves())} if d(st.booleans()) else draw_template(g, {"echo": data, "a": 1, "n": 1, "s": "x"}, in_map=False)
        g.feature("ResultSelector")
    add_output_filters(g, s, data)
    return s


def gen_choice(g, name, data, targets):
    """targets: list of state names; the taken one is decided by the reference."""
    d = g.draw
    s = {"Type": "Choice", "Choices": []}
    nrules = d(st.integers(1, 3))
    for i in range(nrules):
        p, _ = draw_path(g, data, allow_miss=False)
        try:
            v = rp.read(data, rp.parse(p))
        except Exception:
            v = None
        rule = {"Variable": p}
        if isinstance(v, bool):
            rule["BooleanEquals"] = d(st.booleans())
        elif isinstance(v, (int, float)):
            rule[d(st.sampled_from(["NumericEquals", "NumericLessThan", "NumericGreaterThanEquals"]))] = d(st.sampled_from([v, 0, 1, v + 1]))
        elif isinstance(v, str):
            rule[d(st.sampled_from(["StringEquals", "StringLessThan", "StringGreaterThanEquals"]))] = d(st.sampled_from([v, "a", "b", ""]))
        else:
            rule[d(st.sampled_from(["IsPresent", "IsNull", "IsString", "IsNumeric"]))] = d(st.booleans())
        if d(st.integers(0, 5)) == 0:
            rule = {"Not": rule}
        rule["Next"] = targets[i % len(targets)]
        s["Choices"].append(rule)
    if d(st.integers(0, 9)) < 7:
        s["Default"] = targets[-1]
    g.feature("Choice")
    return s


def gen_wait(g, name, data):
    d = g.draw
    s = {"Type": "Wait"}
    k = d(st.sampled_from(["Seconds", "Seconds", "SecondsPath", "Timestamp"]))
    if k == "Seconds":
        s["Seconds"] = d(st.integers(0, 3))
    elif k == "SecondsPath" and isinstance(data, dict) and isinstance(data.get("n"), int) and data["n"] >= 0:
        s["SecondsPath"] = "$.n"
    elif k == "Timestamp":
        s["Timestamp"] = d(st.sampled_from(["2001-01-01T00:00:00Z", "2020-02-29T12:00:00+00:00", "1999-12-31T23:59:59-05:00"]))
    else:
        s["Seconds"] = 1
    if d(st.integers(0, 9)) < 2:
        add_filters(g, s, data, kinds=("InputPath",))
    if d(st.integers(0, 9)) < 2:
        s["OutputPath"] = d(st.sampled_from(["$", "$.a", "$.o", None]))
    g.feature("Wait")
    return s


def gen_block(g, data, depth, in_map=False, top=False, allow_errors=True):
    """Generate a (sub-)machine that starts with `data`; -> {"StartAt", "States"}.
    Follows the executed path; stops at a terminal state."""
    d = g.draw
    states = {}
    name = g.names.fresh()
    start = name
    n_here = d(st.integers(1, g.cfg.get("max_seq", 4) if top else 2))
    cur = data
    i = 0
    while True:
        i += 1
        g.budget -= 1
        last = i >= n_here or g.budget <= 0
        kinds = ["Pass", "Pass", "Task", "Task"]
        if g.cfg.get("waits", True):
            kinds.append("Wait")
        if not last and g.cfg.get("choices", True):
            kinds.append("Choice")
        if depth < g.cfg.get("max_depth", 1) and g.budget > 2:
            kinds += ["Parallel", "Map"] * (2 if g.cfg.get("fanout_heavy") else 1)
        if last and d(st.integers(0, 9)) < 2:
            kinds = ["Succeed", "Fail"] if (top or g.in_failing_branch) and allow_errors and g.cfg.get("fail_states", True) else ["Succeed"]
        kind = d(st.sampled_from(kinds))
        if kind == "Pass":
            s = gen_pass(g, name, cur)
        elif kind == "Task":
            s = gen_task(g, name, cur, allow_errors=allow_errors, in_map=in_map,
                         handlers=not (g.in_failing_branch and d(st.integers(0, 9)) < 7))
        elif kind == "Wait":
            s = gen_wait(g, name, cur)
        elif kind == "Succeed":
            s = {"Type": "Succeed"}
            if d(st.integers(0, 9)) < 2:
                s["OutputPath"] = d(st.sampled_from(["$", "$.a", None]))
            g.feature("Succeed")
        elif kind == "Fail":
            s = {"Type": "Fail", "Error": d(st.sampled_from(["MyError", "E.1", "States.Custom"])), "Cause": d(st.sampled_from(["because", "", "x y"]))}
            g.feature("Fail")
        elif kind == "Parallel":
            s = gen_parallel(g, name, cur, depth, allow_errors)
        elif kind == "Map":
            s = gen_map(g, name, cur, depth, allow_errors)
        else:  # Choice: a few alternative continuations, only the taken one is extended
            tnames = [g.names.fresh() for _ in range(d(st.integers(2, 3)))]
            s = gen_choice(g, name, cur, tnames)
            states[name] = s
            ev = g.eval_state(name, s, cur)
            taken = ev[1] if ev[0] == "ok" else None
            for tn in tnames:
                if tn != taken:
                    states[tn] = d(st.sampled_from([{"Type": "Succeed"}, {"Type": "Pass", "Result": "not-taken", "End": True},
                                                    {"Type": "Fail", "Error": "NotTaken", "Cause": "x"}]))
            if taken is None:
                # NoChoiceMatched (or unspecified): machine ends here
                return {"StartAt": start, "States": states}
            name = taken
            cur = ev[2]
            continue
        states[name] = s
        terminal = kind in ("Succeed", "Fail")
        nxt = None
        if not terminal:
            if last:
                s["End"] = True
            else:
                nxt = g.names.fresh()
                s["Next"] = nxt
        # catchers need a target
        pending_catch = None
        for c in s.get("Catch") or []:
            if c.get("Next") is None:
                cn = g.names.fresh()
                c["Next"] = cn
                pending_catch = cn
        ev = g.eval_state(name, s, cur)
        if pending_catch is not None:
            took_catch = ev[0] == "ok" and ev[1] == pending_catch
            if not took_catch:
                states[pending_catch] = {"Type": "Pass", "End": True}
        if terminal or ev[0] != "ok" or ev[1] is None:
            # the execution ends here (terminal, failure or unspecified): fill dangling targets
            if nxt is not None and nxt not in states:
                states[nxt] = {"Type": "Succeed"}
            if pending_catch is not None and pending_catch not in states:
                states[pending_catch] = {"Type": "Pass", "End": True}
            return {"StartAt": start, "States": states}
        if pending_catch is not None and ev[1] == pending_catch:
            if nxt is not None:
                states[nxt] = {"Type": "Succeed"}
            g.feature("catch-taken")
        name = ev[1]
        cur = ev[2]
        if last:
            n_here = i + 1   # the catcher's target still has to be generated


def add_fanout_handlers(g, s, errnames=("ErrA", "ErrB", "Custom.Error", "MyError", "E.1", "States.Custom")):
    """Retry / Catch on a Parallel or Map state (the Catch target is filled in by gen_block)."""
    d = g.draw
    mode = d(st.sampled_from(["none", "catch", "catch", "catch", "retry", "both"]))
    if mode in ("retry", "both"):
        s["Retry"] = [{"ErrorEquals": d(st.sampled_from([["States.ALL"], list(errnames[:3]), ["Nope"]])),
                       "IntervalSeconds": d(st.integers(1, 2)), "MaxAttempts": d(st.integers(0, 2)), "BackoffRate": d(st.sampled_from([1.0, 2.0]))}]
        g.feature("fanout-Retry")
    if mode in ("catch", "both"):
        c = {"ErrorEquals": d(st.sampled_from([["States.ALL"], ["States.ALL"], list(errnames), ["Nope"]])), "Next": None}
        rpth = d(st.sampled_from(["absent", "$", "$.err", "$.err", None, "$.a.e", "$.o.caught"]))
        if rpth != "absent":
            c["ResultPath"] = rpth
        s["Catch"] = [c]
        g.feature("fanout-Catch")


def gen_parallel(g, name, data, depth, allow_errors):
    d = g.draw
    s = {"Type": "Parallel", "Branches": []}
    eff = add_filters(g, s, data)
    ev = g.eval_state(name + "_in", {"Type": "Pass", "End": True, **{k: v for k, v in s.items() if k in ("InputPath", "Parameters")}}, data)
    eff = ev[2] if ev[0] == "ok" else data
    nb = d(st.integers(2, g.cfg.get("max_branches", 3)))
    # at most one branch may fail (several concurrent failures are C06's family)
    nested_in_failing = g.in_failing_branch
    if nested_in_failing and allow_errors:
        fail_idx = d(st.integers(0, nb - 1))         # only one sub-branch inherits the permission to fail
    elif allow_errors and d(st.integers(0, 99)) < g.cfg.get("branch_fail_pct", 40):
        fail_idx = d(st.integers(0, nb - 1))
    else:
        fail_idx = -1
    for i in range(nb):
        g.budget = max(g.budget, 2)
        saved = g.in_failing_branch
        g.in_failing_branch = (i == fail_idx)
        s["Branches"].append(gen_block(g, eff, depth + 1, allow_errors=(i == fail_idx)))
        g.in_failing_branch = saved
    if fail_idx >= 0 and not nested_in_failing:
        g.feature("fanout-with-failing-branch")
        if g.cfg.get("fanout_handlers", True):
            add_fanout_handlers(g, s)
    if d(st.integers(0, 9)) < 3:
        s["ResultSelector"] = {"first.$": "$[0]", "all.$": "$"}
        g.feature("ResultSelector")
    add_output_filters(g, s, data)
    g.feature("Parallel")
    g.feature("nesting-depth-%d" % (depth + 1))
    return s


def gen_map(g, name, data, depth, allow_errors):
    d = g.draw
    s = {"Type": "Map"}
    ap, _ = draw_path(g, data, "array", allow_miss=False)
    if ap is None:
        # no array in the data: synthesize one through Parameters-free InputPath? use a Pass-free literal via ItemsPath on context input
        s["ItemsPath"] = "$$.Execution.Input.items"
        items = None
    else:
        s["ItemsPath"] = ap
        items = rp.read(data, rp.parse(ap))
    if items is None:
        # fall back to a Parallel when no array is available
        return gen_parallel(g, name, data, depth, allow_errors)
    if d(st.integers(0, 9)) < 4:
        s["ItemSelector"] = draw_template(g, data, in_map=True)
        s["ItemSelector"]["k.$"] = "$$.Map.Item.Value"
        g.feature("ItemSelector")
    elif d(st.integers(0, 11)) == 0:
        s["ItemSelector"] = {}          # the empty template: every iteration's input is {}
        g.feature("ItemSelector")
    key = d(st.sampled_from(["ItemProcessor", "Iterator"]))
    sample_item = items[0] if items else 0
    ictx = {"Execution": {"Input": {}}, "StateMachine": {"Id": None}, "State": {"Name": name},
            "Map": {"Item": {"Index": 0, "Value": sample_item}}}
    eff = sample_item
    if "ItemSelector" in s:
        ev = g.eval_state(name + "_sel", {"Type": "Pass", "End": True, "Parameters": s["ItemSelector"]}, data, ictx)
        eff = ev[2] if ev[0] == "ok" else sample_item
    g.budget = max(g.budget, 2)
    scalar_items = bool(items) and all(not isinstance(x, (dict, list)) for x in items) and "ItemSelector" not in s
    if allow_errors and not g.in_failing_branch and scalar_items and d(st.integers(0, 99)) < g.cfg.get("branch_fail_pct", 40):
        # one iteration fails: the iterator starts with a Task whose behaviour depends on the item
        tn, pn = g.names.fresh(), g.names.fresh()
        fn = "f_" + tn
        bad = d(st.sampled_from(items))
        err = d(st.sampled_from(["ErrA", "ErrB", "Custom.Error"]))
        seq = d(st.sampled_from([[{"err": err, "msg": "boom"}], [{"err": err, "msg": "boom"}, {"ok": "$echo"}]]))
        g.oracle[fn] = {"seq": [{"ok": "$echo"}], "by_key": {json.dumps(bad): seq}}
        s[key] = {"StartAt": tn, "States": {tn: {"Type": "Task", "Resource": "arn:aws:rpcmessage:local::function:" + fn, "Next": pn},
                                            pn: {"Type": "Pass", "End": True}}}
        g.feature("fanout-with-failing-branch")
        g.feature("map-failing-item")
        if g.cfg.get("fanout_handlers", True):
            add_fanout_handlers(g, s)
    elif s.get("ItemSelector") and d(st.integers(0, 2)) == 0:
        # the iteration hands its input on unchanged: what the ItemSelector built for every item is what the Map state collects
        pn = g.names.fresh()
        s[key] = {"StartAt": pn, "States": {pn: {"Type": d(st.sampled_from(["Pass", "Succeed"]))}}}
        if s[key]["States"][pn]["Type"] == "Pass":
            s[key]["States"][pn]["End"] = True
        g.feature("map-selector-passed-through")
    else:
        # the iterator is generated against the first item; paths inside it may miss for other items
        saved = g.cfg.get("misses", True)
        g.cfg["misses"] = False
        s[key] = gen_block(g, eff, depth + 1, in_map=True, allow_errors=False)
        g.cfg["misses"] = saved
    mc = d(st.integers(0, len(items) + 1))
    if mc or d(st.booleans()):
        s["MaxConcurrency"] = mc
    add_output_filters(g, s, data)
    g.feature("Map")
    g.feature("map-len-%d" % min(len(items), 4))
    g.feature("nesting-depth-%d" % (depth + 1))
    return s


@st.composite
def machine_cases(draw, cfg=None):
    """-> dict(definition, input, oracle, features, type)"""
    cfg = dict(cfg or {})
    g = GenCtx(draw, cfg)
    data = draw(inputs())
    definition = gen_block(g, data, 0, top=True)
    if draw(st.integers(0, 9)) == 0:
        definition["Comment"] = "generated"
    return {"definition": definition, "input": data, "oracle": g.oracle,
            "features": sorted(g.features), "type": draw(st.sampled_from(cfg.get("types", ["STANDARD", "STANDARD", "EXPRESS"])))}
