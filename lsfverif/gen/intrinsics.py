"""
Grammar-based generator of intrinsic-function expressions (well-formed and
ill-formed) and payload templates for C13.
"""
import json

from hypothesis import strategies as st

from ..ref import template as rt

# the document the generated paths point into (kept small and typed)
BASE_INPUT = {"s": "a,b", "s2": "x y", "n": 3, "z": 0, "neg": -2, "f": 1.5, "fi": 2.0, "t": True, "nul": None,
              "arr": [1, 2, 2, "a", "a"], "e": [], "obj": {"k": "v", "n": 1}, "obj2": {"k": "w", "z": [1]},
              "js": "{\"a\": [1, 2]}", "b64": "aGVsbG8=", "nested": {"arr": [[1, 2], [3]]}}
BASE_CONTEXT = {"Execution": {"Input": {"q": 7}, "Name": "e1"}, "State": {"Name": "S"}, "x": "ctx"}

STR_PATHS = ["$.s", "$.s2", "$.obj.k", "$.js", "$.b64", "$$.x", "$$.State.Name"]
INT_PATHS = ["$.n", "$.z", "$.neg", "$.obj.n", "$$.Execution.Input.q"]
ARR_PATHS = ["$.arr", "$.e", "$.nested.arr", "$.nested.arr[0]", "$.obj2.z"]
OBJ_PATHS = ["$.obj", "$.obj2", "$$.Execution.Input"]
ANY_PATHS = STR_PATHS + INT_PATHS + ARR_PATHS + OBJ_PATHS + ["$.f", "$.fi", "$.t", "$.nul", "$"]
MISSING_PATHS = ["$.zz", "$.obj.zz", "$.arr[9]", "$$.zz"]

META = ",'\\()[]^ "        # metacharacters the property names (braces only inside Format templates)
ALPHA = "abA1"


def strings(meta=True, maxlen=5):
    chars = ALPHA + (META if meta else "")
    return st.text(alphabet=chars, max_size=maxlen)


def render_string(s):
    return "'" + s.replace("\\", "\\\\").replace("'", "\\'") + "'"


class Node:
    """AST node with rendering and feature extraction."""

    def __init__(self, kind, value=None, name=None, args=None, raw=None):
        self.kind, self.value, self.name, self.args, self.raw = kind, value, name, args or [], raw

    def render(self):
        if self.kind == "raw":
            return self.raw
        if self.kind == "str":
            return self.raw if self.raw is not None else render_string(self.value)
        if self.kind == "lit":
            return json.dumps(self.value)
        if self.kind == "path":
            return self.value
        sep = self.value or ", "
        return "%s(%s)" % (self.name, sep.join(a.render() for a in self.args))

    def depth(self):
        if self.kind != "call":
            return 0
        return 1 + max([a.depth() for a in self.args] + [0])


def features(root):
    """Feature set of an expression: string metacharacters (split by whether they sit in the outermost call or a nested one),
    call nesting depth."""
    out = set()

    def walk(n, level):
        if n.kind == "str":
            s = n.value or ""
            where = "nested-" if level >= 2 else ""
            for cond, tag in (("'" in s, "str-apostrophe"), ("\\" in s, "str-backslash"), ("," in s, "str-comma"),
                              (("(" in s) or (")" in s), "str-paren"), (any(c in s for c in "[]^"), "str-bracket-caret"),
                              (s != s.strip(), "str-outer-space"), (" " in s.strip(), "str-inner-space"),
                              (("{" in s) or ("}" in s), "str-brace"), (s == "", "str-empty"),
                              (s.startswith("$"), "str-dollar"), (s.startswith("States."), "str-States")):
                if cond:
                    out.add(where + tag)
        elif n.kind == "call":
            for a in n.args:
                walk(a, level + 1)
    walk(root, 0)
    d = root.depth() - 1          # levels of nested calls
    if d >= 1:
        out.add("nesting>=1")
    if d >= 2:
        out.add("nesting>=2")
    return out


def S(value):
    return Node("str", value)


def L(value):
    return Node("lit", value)


def P(path):
    return Node("path", path)


def C(name, *args):
    return Node("call", name=name, args=list(args))


# ---------------------------------------------------------------- typed args
def str_arg(depth, meta=True):
    base = [strings(meta).map(S), st.sampled_from(STR_PATHS).map(P)]
    if depth > 0:
        base.append(st.deferred(lambda: string_calls(depth - 1)))
    return st.one_of(base)


def int_arg(depth, lo=-3, hi=12):
    base = [st.integers(lo, hi).map(L), st.sampled_from(INT_PATHS).map(P)]
    if depth > 0:
        base.append(st.deferred(lambda: int_calls(depth - 1)))
    return st.one_of(base)


def arr_arg(depth):
    base = [st.sampled_from(ARR_PATHS).map(P)]
    if depth > 0:
        base.append(st.deferred(lambda: array_calls(depth - 1)))
    else:
        base.append(st.lists(scalar_arg(), max_size=3).map(lambda xs: C("States.Array", *xs)))
    return st.one_of(base)


def obj_arg(depth):
    base = [st.sampled_from(OBJ_PATHS).map(P)]
    if depth > 0:
        base.append(st.just(C("States.StringToJson", P("$.js"))))
    return st.one_of(base)


def scalar_arg():
    # (1.0 / 2.0 / $.fi: numbers with an integral value that are not integers - an index, a size or a range bound has to be an integer)
    return st.one_of(strings().map(S), st.integers(-3, 12).map(L), st.sampled_from([None, True, False, 1.5, 1.0, 2.0]).map(L),
                     st.sampled_from(STR_PATHS + INT_PATHS + ["$.f", "$.t", "$.nul", "$.fi"]).map(P))


def any_arg(depth):
    base = [scalar_arg(), st.sampled_from(ANY_PATHS).map(P)]
    if depth > 0:
        base.append(st.deferred(lambda: calls(depth - 1)))
    return st.one_of(base)


def fmt_template(nargs):
    """A Format template with exactly `nargs` placeholders, literal braces escaped."""
    piece = st.text(alphabet=ALPHA + ",'\\() ", max_size=3)

    def build(pieces, braces):
        out = []
        for i in range(nargs):
            out.append(pieces[i])
            out.append("{}")
        out.append(pieces[nargs])
        s = "".join(out)
        return s
    return st.lists(piece, min_size=nargs + 1, max_size=nargs + 1).map(lambda ps: build(ps, False))


def render_fmt(s):
    # template text -> literal: escape backslash and apostrophe; placeholders stay
    return "'" + s.replace("\\", "\\\\").replace("'", "\\'") + "'"


@st.composite
def format_call(draw, depth):
    n = draw(st.integers(0, 3))
    tpl = draw(fmt_template(n))
    lit_braces = draw(st.integers(0, 5)) == 0
    node = S(tpl)
    if lit_braces:
        # add an escaped literal brace pair: written \{x\} in the expression
        node = Node("str", value=tpl + "{x}", raw="'" + (tpl.replace("\\", "\\\\").replace("'", "\\'")) + "\\{x\\}'")
        node.fmt_literal_braces = True
    args = [draw(st.one_of(str_arg(depth), int_arg(depth))) for _ in range(n)]
    c = C("States.Format", node, *args)
    return c


def string_calls(depth):
    return st.one_of(
        format_call(depth),
        str_arg(depth).map(lambda a: C("States.Base64Encode", a)),
        st.just(C("States.Base64Decode", P("$.b64"))),
        st.tuples(str_arg(depth, meta=False), st.sampled_from(["MD5", "SHA-1", "SHA-256", "SHA-384", "SHA-512"])).map(lambda t: C("States.Hash", t[0], S(t[1]))),
        any_arg(depth).map(lambda a: C("States.JsonToString", a)),
        st.tuples(arr_arg(depth), st.integers(0, 2)).map(lambda t: C("States.ArrayGetItem", C("States.Array", S("p"), S("q,r"), S("s")), L(t[1]))),
        st.just(C("States.UUID")),
    )


def int_calls(depth):
    return st.one_of(
        st.tuples(int_arg(depth), int_arg(depth)).map(lambda t: C("States.MathAdd", *t)),
        arr_arg(depth).map(lambda a: C("States.ArrayLength", a)),
        st.tuples(st.integers(0, 3), st.integers(4, 9)).map(lambda t: C("States.MathRandom", L(t[0]), L(t[1]))),
    )


def array_calls(depth):
    return st.one_of(
        st.lists(any_arg(depth), max_size=4).map(lambda xs: C("States.Array", *xs)),
        st.tuples(arr_arg(depth), int_arg(0, 1, 4)).map(lambda t: C("States.ArrayPartition", *t)),
        st.tuples(int_arg(depth, -3, 6), int_arg(depth, -3, 12), st.sampled_from([1, 2, 3, -1, -2]).map(L)).map(lambda t: C("States.ArrayRange", *t)),
        arr_arg(depth).map(lambda a: C("States.ArrayUnique", a)),
        split_call(depth),
        # the 1 000-item limit met exactly, and few items between huge bounds: a value, whatever the magnitudes
        range_call(st.sampled_from([1, 2, 5, 999, 1000])),
    )


@st.composite
def range_call(draw, counts):
    """States.ArrayRange(first, last, step) with a chosen number of items; first and step of any magnitude, last anywhere inside the final stride."""
    n = draw(counts)
    first = draw(st.sampled_from([0, 1, -5, 7, 10 ** 6, -10 ** 9, 2 ** 31 - 1, 2 ** 63, -2 ** 64, 10 ** 30]))
    step = draw(st.sampled_from([1, 2, 3, 7, 1000, 10 ** 6, 2 ** 40, 10 ** 29])) * draw(st.sampled_from([1, -1]))
    slack = draw(st.integers(0, abs(step) - 1)) if abs(step) <= 1000 else draw(st.sampled_from([0, 1, abs(step) // 2, abs(step) - 1]))
    last = first + step * (n - 1) + (slack if step > 0 else -slack)
    return C("States.ArrayRange", L(first), L(last), L(step))


@st.composite
def split_call(draw, depth):
    seps = draw(st.text(alphabet=",;.^]\\-[ |", min_size=1, max_size=3))
    parts = draw(st.lists(st.text(alphabet="abA1", min_size=1, max_size=3), min_size=1, max_size=4))
    joined = parts[0]
    for p in parts[1:]:
        joined += draw(st.sampled_from(list(seps))) + p
    return C("States.StringSplit", S(joined), S(seps))


def bool_calls(depth):
    return st.tuples(arr_arg(depth), any_arg(0)).map(lambda t: C("States.ArrayContains", *t))


def obj_calls(depth):
    return st.one_of(
        st.tuples(obj_arg(depth), obj_arg(depth)).map(lambda t: C("States.JsonMerge", t[0], t[1], L(False))),
        st.just(C("States.StringToJson", P("$.js"))),
        strings(meta=False).map(lambda s: C("States.StringToJson", S(json.dumps({"k": s})))),
    )


def calls(depth):
    return st.one_of(string_calls(depth), int_calls(depth), array_calls(depth), bool_calls(depth), obj_calls(depth))


# ----------------------------------------------------------------- ill-formed
FUNCS = ["States.Format", "States.StringToJson", "States.JsonToString", "States.Array", "States.ArrayPartition",
         "States.ArrayContains", "States.ArrayRange", "States.ArrayGetItem", "States.ArrayLength", "States.ArrayUnique",
         "States.Base64Encode", "States.Base64Decode", "States.Hash", "States.JsonMerge", "States.MathRandom",
         "States.MathAdd", "States.StringSplit", "States.UUID"]
BOGUS_NAMES = ["States.Nope", "States.format", "Format", "arglist", "evaluate_intrinsic_function", "clone", "apply_path",
               "asl_intrinsic_Format", "States.Default", "json.loads", "input", "States.", "func", "print", "__import__"]


@st.composite
def ill_formed(draw):
    """-> (expression text, tag).  The reference must agree that the text is ill-formed (checked by the caller)."""
    kind = draw(st.sampled_from(["arity", "type", "name", "unbalanced-paren", "unbalanced-quote", "bad-token", "bad-path", "trailing", "range-size"]))
    if kind == "arity":
        f = draw(st.sampled_from(["States.ArrayPartition", "States.ArrayContains", "States.ArrayRange", "States.ArrayGetItem",
                                  "States.ArrayLength", "States.ArrayUnique", "States.Base64Encode", "States.Base64Decode",
                                  "States.Hash", "States.JsonMerge", "States.MathAdd", "States.StringSplit", "States.UUID",
                                  "States.StringToJson", "States.JsonToString", "States.MathRandom"]))
        n = draw(st.sampled_from([0, 1, 4, 5]))
        args = [draw(scalar_arg()) for _ in range(n)]
        return C(f, *args).render(), "arity"
    if kind == "type":
        f, args = draw(st.sampled_from([
            ("States.ArrayPartition", [S("x"), L(2)]), ("States.ArrayPartition", [P("$.arr"), L(0)]), ("States.ArrayPartition", [P("$.arr"), S("2")]),
            ("States.ArrayContains", [L(1), L(1)]), ("States.ArrayRange", [L(1), S("5"), L(1)]), ("States.ArrayRange", [L(1), L(5), L(0)]),
            ("States.ArrayRange", [L(1), L(5000), L(1)]), ("States.ArrayGetItem", [P("$.arr"), L(9)]), ("States.ArrayGetItem", [P("$.arr"), L(-1)]),
            ("States.ArrayGetItem", [P("$.e"), L(0)]), ("States.ArrayGetItem", [S("abc"), L(0)]), ("States.ArrayLength", [S("abc")]),
            ("States.ArrayLength", [P("$.obj")]), ("States.ArrayUnique", [L(3)]), ("States.Base64Encode", [L(3)]), ("States.Base64Decode", [L(3)]),
            ("States.Base64Decode", [S("!!!")]), ("States.Hash", [S("a"), S("CRC32")]), ("States.Hash", [L(1), S("MD5")]), ("States.Hash", [P("$.obj"), S("MD5")]),
            ("States.JsonMerge", [P("$.obj"), P("$.obj2"), L(True)]), ("States.JsonMerge", [P("$.obj"), P("$.obj2"), L(0)]), ("States.JsonMerge", [P("$.obj"), P("$.obj2"), P("$.z")]), ("States.JsonMerge", [P("$.obj"), L(3), L(False)]), ("States.JsonMerge", [S("a"), P("$.obj"), L(False)]),
            ("States.MathAdd", [S("1"), L(2)]), ("States.MathAdd", [L(1.5), L(2)]), ("States.MathAdd", [L(True), L(2)]), ("States.MathRandom", [S("a"), L(3)]),
            ("States.StringSplit", [L(1), S(",")]), ("States.StringSplit", [S("a,b"), L(1)]), ("States.StringToJson", [S("{not json")]),
            ("States.StringToJson", [L(3)]), ("States.Format", [L(3)]), ("States.Format", []), ("States.Format", [S("{} {}"), S("only-one")]),
            # numbers with an integral value that are not integers, where an index / size / bound / step has to be one
            ("States.ArrayGetItem", [P("$.arr"), L(1.0)]), ("States.ArrayGetItem", [P("$.arr"), P("$.fi")]), ("States.ArrayPartition", [P("$.arr"), L(2.0)]),
            ("States.ArrayPartition", [P("$.arr"), P("$.fi")]), ("States.ArrayRange", [L(1.0), L(3), L(1)]), ("States.ArrayRange", [L(1), L(3.0), L(1)]),
            ("States.ArrayRange", [L(1), L(3), L(1.0)]), ("States.ArrayRange", [L(1), P("$.fi"), L(1)]), ("States.MathRandom", [L(1.0), L(5)]),
            ("States.MathRandom", [L(1), P("$.fi")]), ("States.MathAdd", [L(1.0), L(2)]), ("States.MathAdd", [L(1), P("$.fi")]),
        ]))
        return C(f, *args).render(), "type"
    if kind == "range-size":
        # more than 1 000 items: just over the limit, and so many that the array could not be built at all
        return draw(range_call(st.sampled_from([1001, 1002, 2000, 10 ** 6, 2 ** 31, 2 ** 63 + 1, 10 ** 30, 10 ** 100]))).render(), "range-size"
    if kind == "name":
        n = draw(st.sampled_from(BOGUS_NAMES))
        args = [draw(scalar_arg()) for _ in range(draw(st.integers(0, 2)))]
        return C(n, *args).render(), "name"
    good = draw(calls(1)).render()
    if kind == "unbalanced-paren":
        if draw(st.booleans()):
            return good[:-1], "unbalanced-paren"
        return good.replace("(", "", 1), "unbalanced-paren"
    if kind == "unbalanced-quote":
        return "States.Array('abc, 1)", "unbalanced-quote"
    if kind == "bad-token":
        tok = draw(st.sampled_from(["f123.45", "abc", "1..2", "--1", "1_0", "+5", "0x10", "nul", "True", "NaN", "Infinity", "1e", "@"]))
        return "States.Array(1, %s)" % tok, "bad-token"
    if kind == "bad-path":
        return C(draw(st.sampled_from(["States.Array", "States.ArrayLength", "States.JsonToString"])), P(draw(st.sampled_from(MISSING_PATHS)))).render(), "bad-path"
    return good + draw(st.sampled_from([" x", ")", ", 1", "States.UUID()"])), "trailing"


# ------------------------------------------------------------------ templates
@st.composite
def templates(draw, depth=2):
    n = draw(st.integers(0, 3))
    out = {}
    for i in range(n):
        key = draw(st.sampled_from(["a", "b", "c", "d", "x.y", "k$", "$k", "a.$x"])) + str(i)
        kind = draw(st.sampled_from(["lit", "lit-dollar", "path", "ctx", "call", "nest", "list", "lit", "path", "call", "non-string-dollar"]))
        if kind == "lit":
            out[key] = draw(st.one_of(st.sampled_from([0, 1.5, True, None, "", "plain"]), st.just({}), st.just([])))
        elif kind == "lit-dollar":
            # values that look evaluable but whose member name does not end in ".$": must be copied verbatim
            out[key] = draw(st.sampled_from(["$.s", "$$.x", "States.UUID()", "$", "States.MathAdd(1, 2)"]))
        elif kind == "non-string-dollar":
            # a '.$' member whose value is not a string is ill-formed: a clean failure, never an arbitrary exception
            out[key + ".$"] = draw(st.sampled_from([5, 1.5, True, None, 0]))
        elif kind == "path":
            out[key + ".$"] = draw(st.sampled_from(ANY_PATHS + MISSING_PATHS[:1]))
        elif kind == "ctx":
            out[key + ".$"] = draw(st.sampled_from(["$$.x", "$$.Execution.Input", "$$.State.Name", "$$"]))
        elif kind == "call":
            # argument parsing is exercised by the expression campaign; templates use simple calls
            out[key + ".$"] = draw(st.sampled_from(["States.MathAdd($.n, 1)", "States.Array($.s, 1, null)", "States.Format('v={}', $.s)",
                                                    "States.UUID()", "States.ArrayLength($.arr)", "States.JsonToString($.obj)",
                                                    "States.MathAdd($.zz, 1)", "States.Nope(1)", "States.ArrayLength($.s)"]))
        elif kind == "nest" and depth > 0:
            out[key] = draw(templates(depth - 1))
        else:
            inner = draw(templates(0)) if depth > 0 else {"z.$": "$.n"}
            shape = draw(st.sampled_from(["flat", "nested", "deep"]))
            if shape == "flat":
                out[key] = [draw(st.sampled_from([1, "lit", "$.s", None])), inner]
            elif shape == "nested":
                out[key] = [[inner, 2], [draw(st.sampled_from([1, "lit", None]))]]
            else:
                out[key] = [[[{"w.$": "$.s"}], inner]]
    return out
