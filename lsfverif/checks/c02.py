"""
C02 - every execution ends exactly once and its terminal record never changes.
LifecycleMonitor over generated machines x generated schedules x 1-3 concurrent executions
(API starts and raw start events on the shared queue).
"""
from . import _monitored as mon
from .. import sched as S

PID = "C02"
RULE = ("cases = (machine from the SEQ / PAR_OK / PAR_FAIL1 families, 1-3 concurrently started executions incl. raw start events with and without message ids, "
        "schedule = list of choices among the enabled deliveries / timer expiries / clock advances). Monitor after every step: notification sequence per "
        "execution is RUNNING then exactly one terminal; the stored record is well-formed and, once terminal, never changes; at quiescence every started execution "
        "is terminal. Non-trivial = the schedule deviates from the canonical one and (two or more executions overlap or a fan-out is present). Distinct by canonical JSON.")
CFG = dict(S.CFG_SCHED, fanout_handlers=False)
mon.SPECS[PID] = mon.Spec(PID, ("lifecycle", "exceptions"), RULE, [
    "machines are acyclic and every worker replies, so termination at quiescence is decidable",
    "handled / multiple concurrent failures inside fan-outs belong to C06",
    "record immutability is read from the executions store after every scheduler step (STANDARD machines); EXPRESS executions are checked on notifications only",
    "one run in five goes on, after quiescence, until the expiry back stop of the join state (execution_ttl set to 40 s) and 130 s beyond, with the monitor still attached",
], cfg=CFG, variants=lambda: __import__("hypothesis").strategies.sampled_from([{}, {}, {"past_expiry": 40}, {"past_expiry": 40, "stragglers_past_expiry": True}]))


def main(tier, seed, replay=None):
    return mon.main(PID, tier, seed, replay)
