"""
C10 - the state-machine and execution API behaves like a simple keyed store.

Model-based (stateful) testing: Hypothesis draws a sequence of API calls over small
pools of names, role ARNs, definitions, logging configurations, execution names,
inputs and raw request bodies; every call is applied to the real front end
(rest_api_asyncio on Quart, or rest_api on Flask) of a running engine and to a
reference model that is a map from ARN to record.  After every call the response is
compared with the model's and, for refused calls, the two stores are compared with
their contents before the call.
"""
import copy, json, re, traceback

from .. import env
from ..runner import Campaign, HarnessError, run_shards

PID = "C10"
RULE = ("case = one generated call sequence (<= 30 calls) against one front end (asyncio/Quart or blocking/Flask) with validate_asl on or off. "
        "Non-trivial = the sequence contains at least one refused call after a successful create, and either an update or a delete followed by a read. "
        "Distinct by the sequence's canonical JSON.")

ACCOUNT = "0123456789"
ROLES = {"r1": "arn:aws:iam::%s:role/service-role/MyRole" % ACCOUNT, "r2": "arn:aws:iam::%s:role/other" % ACCOUNT,
         "bad_account": "arn:aws:iam::abc:role/x", "not_arn": "role", "empty": "", "number": 17}
NAMES = {"m1": "m1", "m2": "m1-b", "m3": "M-3_x.y", "space": "bad name", "empty": "", "long": "x" * 81, "max": "y" * 80, "colon": "a:b", "number": 5, "star": "a*"}
D_PASS = {"StartAt": "P", "States": {"P": {"Type": "Pass", "End": True}}}
D_PASS2 = {"Comment": "second version", "StartAt": "Q", "States": {"Q": {"Type": "Pass", "Result": {"v": 2}, "End": True}}}
D_FAIL = {"StartAt": "F", "States": {"F": {"Type": "Fail", "Error": "E", "Cause": "c"}}}
D_WAIT = {"StartAt": "W", "States": {"W": {"Type": "Wait", "Seconds": 100000, "End": True}}}
DEFS = {
    "pass": json.dumps(D_PASS), "pass2": json.dumps(D_PASS2, indent=2), "fail": json.dumps(D_FAIL), "wait": json.dumps(D_WAIT),
    "empty": "", "not_json": "{bad", "number": 17, "list": [1],
    "json_null": "null", "json_list": "[]", "json_obj_empty": "{}", "json_junk": json.dumps({"StartAt": "X", "States": {}}),
}
RUNNABLE = {"pass": D_PASS, "pass2": D_PASS2, "fail": D_FAIL, "wait": D_WAIT}
INVALID_DEFS = {"empty", "not_json", "number", "list"}
JUNK_DEFS = {"json_null", "json_list", "json_obj_empty", "json_junk"}
LOGS = {"omit": None, "off": {"level": "OFF"}, "empty": {}, "all": {"level": "ALL", "destinations": [{"cloudWatchLogsLogGroup": {"logGroupArn": "arn:x"}}]},
        "error_incl": {"level": "ERROR", "includeExecutionData": True, "destinations": [{"d": 1}]},
        "all_nodest": {"level": "ALL"}, "bogus": {"level": "BOGUS"}, "nodest_list": {"level": "FATAL", "destinations": []}, "two_dest": {"level": "ALL", "destinations": [{}, {}]},
        "string": "ALL", "list": ["ALL"], "level_list": {"level": []}, "level_obj": {"level": {"a": 1}}, "level_num": {"level": 5}, "level_null": {"level": None},
        "dest_str": {"level": "ALL", "destinations": "x"}, "dest_num": {"level": "ERROR", "destinations": 7}, "dest_obj": {"level": "FATAL", "destinations": {"a": 1}}}
VALID_LOGS = {"omit", "off", "empty", "all", "error_incl"}
TYPES = {"omit": None, "STANDARD": "STANDARD", "EXPRESS": "EXPRESS", "bogus": "FAST", "lower": "standard", "list": ["STANDARD"], "number": 1}
INPUTS = {"omit": None, "obj": '{"a": 1}', "list": "[1, 2]", "str": '"s"', "null": "null", "not_json": "{oops", "empty": "", "number": 5, "object_value": {"a": 1}}
VALID_INPUTS = {"omit": {}, "obj": {"a": 1}, "list": [1, 2], "str": "s", "null": None}
SM_ARNS = ["m1", "m2", "m3", "max", "ghost", "!bad", "!empty", "!number", "!execution", "!omit"]
RAW_BODIES = ["[]", '"str"', "{bad", "", "null", "3", "[{}]"]
FORBIDDEN = set(" <>{}[]?*\"#%\\^|~`$&,;:/")


def sm_arn(name):
    return "arn:aws:states:local:%s:stateMachine:%s" % (ACCOUNT, name)


def valid_name(n):
    return isinstance(n, str) and 1 <= len(n) <= 80 and not (set(n) & FORBIDDEN)


def valid_role(r):
    return isinstance(r, str) and re.match(r"^arn:aws:iam::[0-9]+:role/.+$", r) is not None and len(r) <= 256


def resolve_sm(ref):
    if ref == "!bad":
        return "arn:aws:states:local:%s:machine:m1" % ACCOUNT
    if ref == "!empty":
        return ""
    if ref == "!number":
        return 12
    if ref == "!execution":
        return "arn:aws:states:local:%s:execution:m1:e" % ACCOUNT
    if ref == "!omit":
        return None
    return sm_arn(NAMES.get(ref, ref))


class Model:
    def __init__(self, validate_asl, front):
        self.machines = {}
        self.executions = {}
        self.order = []
        self.validate_asl = validate_asl
        self.front = front


def js(x):
    return json.dumps(x, sort_keys=True, default=str)


def run_sequence(sc):
    """sc: dict(front, validate_asl, ops) -> list of (bucket, detail)"""
    from .. import world as W
    fails = []
    front = sc["front"]
    w = W.World(seed=10, tick=0.001, validate_asl=bool(sc["validate_asl"]))
    try:
        eng = w.add_engine("A", transport="blocking" if front == "blocking" else "asyncio", rest=front)
        se = eng.state_engine
        M = Model(bool(sc["validate_asl"]) and front == "asyncio", front)
        started = []        # execution ARNs started so far
        exec_counter = [0]

        def snap():
            return js({"machines": {k: dict(v) for k, v in se.asl_store.items()}, "executions": {k: dict(v) for k, v in se.executions.items()}})

        def etype(body):
            return body.get("__type") if isinstance(body, dict) else None

        def check_refused(op, status, body, allowed, before, what):
            tag = "%s:%s" % (op["op"], what)
            if status >= 500:
                fails.append(("internal-error:" + tag, "%s -> %s %r" % (js(op), status, body)))
            elif status == 200:
                fails.append(("accepted-but-invalid:" + tag, "%s -> 200 %r" % (js(op), body)))
            elif allowed is not None and etype(body) not in allowed:
                fails.append(("wrong-error-type:" + tag, "%s -> %s %r, expected one of %s" % (js(op), status, body, sorted(allowed))))
            after = snap()
            if after != before:
                fails.append(("refused-call-changed-store:" + tag, "%s -> %s %r; store before %s after %s" % (js(op), status, body, before[:600], after[:600])))

        def settle():
            w.run((), max_steps=500, until=lambda w_: not (w_.broker.deliverable() or w_.broker.pending_returns or w_.broker.due_timers()))

        for op in sc["ops"]:
            kind = op["op"]
            before = snap()
            if kind == "raw":
                # a body that is no JSON object carries no arguments: the call is answered like one without arguments, never with 5xx
                status, body = eng.api(op["action"], None, raw_body=op["body"])
                if status >= 500:
                    fails.append(("internal-error:raw:non-object-body", "%s -> %s %r" % (js(op), status, body)))
                elif status == 200 and op["action"] != "ListStateMachines":
                    fails.append(("accepted-but-invalid:raw:non-object-body", "%s -> 200 %r" % (js(op), body)))
                if snap() != before:
                    fails.append(("refused-call-changed-store:raw", js(op)))
                continue
            if kind == "create":
                name, role, d, typ, log = NAMES[op["name"]], ROLES.get(op["role"]), DEFS.get(op["def"]), TYPES[op["type"]], LOGS[op["log"]]
                params = {}
                if op["name"] != "omit":
                    params["name"] = name
                if op["role"] != "omit":
                    params["roleArn"] = role
                if op["def"] != "omit":
                    params["definition"] = d
                if typ is not None:
                    params["type"] = typ
                if log is not None and front == "asyncio":
                    params["loggingConfiguration"] = copy.deepcopy(log)
                status, body = eng.api("CreateStateMachine", params)
                errs = set()
                if not valid_name(name):
                    errs.add("InvalidName")
                if not valid_role(role):
                    errs |= {"InvalidArn"} | ({"MissingRequiredParameter"} if role in (None, "") else set())
                if op["def"] == "omit":
                    errs |= {"MissingRequiredParameter", "InvalidDefinition"}
                if typ is not None and typ not in ("STANDARD", "EXPRESS"):
                    errs |= {"StateMachineTypeNotSupported", "ValidationException"}
                if op["def"] in INVALID_DEFS:
                    errs |= {"InvalidDefinition"} | ({"ValidationException"} if op["def"] in ("number", "list") else set())
                junk = op["def"] in JUNK_DEFS
                if op["def"] == "json_junk" and M.validate_asl:     # (whether the validator refuses null/[]/{} is C18's subject)
                    errs.add("InvalidDefinition")
                if front == "asyncio" and op["log"] not in VALID_LOGS:
                    errs |= {"InvalidLoggingConfiguration"} | ({"ValidationException"} if op["log"] in ("string", "list") else set())
                arn = sm_arn(name) if valid_name(name) else None
                if arn in M.machines and valid_role(role):
                    errs.add("StateMachineAlreadyExists")
                if errs:
                    tag = "+".join(sorted(errs - {"ValidationException"}))
                    check_refused(op, status, body, errs | ({"InvalidDefinition", "MissingRequiredParameter"} if junk else set()), before, tag)
                elif junk and status != 200:
                    check_refused(op, status, body, {"InvalidDefinition", "MissingRequiredParameter"}, before, "junk-definition")
                else:
                    if status != 200 or not isinstance(body, dict) or body.get("stateMachineArn") != arn or not isinstance(body.get("creationDate"), (int, float)):
                        fails.append(("create-refused-or-wrong-answer", "%s -> %s %r" % (js(op), status, body)))
                        if status != 200:
                            continue
                    M.machines[arn] = {"name": name, "roleArn": role, "definition": json.loads(d), "type": typ or "STANDARD", "creationDate": body.get("creationDate"),
                                       "updateDate": body.get("creationDate"), "log": log, "junk": junk, "stateMachineArn": arn}
            elif kind in ("describe", "delete", "update", "list_executions", "start"):
                arn = resolve_sm(op["sm"])
                params = {} if arn is None else {"stateMachineArn": arn}
                errs = set()
                if arn is None or arn == "":
                    errs |= {"MissingRequiredParameter", "InvalidArn"}
                elif not (isinstance(arn, str) and re.match(r"^arn:aws:states:[^:]+:[0-9]+:stateMachine:.+$", arn)):
                    errs |= {"InvalidArn"}
                elif arn not in M.machines:
                    errs |= {"StateMachineDoesNotExist"}
                rec = M.machines.get(arn) if isinstance(arn, str) else None
                if kind == "describe":
                    status, body = eng.api("DescribeStateMachine", params)
                    if errs:
                        check_refused(op, status, body, errs, before, "+".join(sorted(errs)))
                    else:
                        fails.extend(compare_machine(op, status, body, rec, front))
                        if snap() != before:
                            fails.append(("read-changed-store:describe", js(op)))
                elif kind == "delete":
                    status, body = eng.api("DeleteStateMachine", params)
                    if errs:
                        check_refused(op, status, body, errs, before, "+".join(sorted(errs)))
                    elif status != 200:
                        fails.append(("delete-refused", "%s -> %s %r" % (js(op), status, body)))
                    else:
                        del M.machines[arn]
                elif kind == "update":
                    role = ROLES[op["role"]] if op["role"] != "omit" else None
                    d = DEFS[op["def"]] if op["def"] != "omit" else None
                    log = LOGS[op["log"]] if front == "asyncio" else None
                    if role is not None:
                        params["roleArn"] = role
                    if d is not None:
                        params["definition"] = d
                    if log is not None:
                        params["loggingConfiguration"] = copy.deepcopy(log)
                    status, body = eng.api("UpdateStateMachine", params)
                    # "" counts as not supplied (role and definition)
                    role_given = role not in (None, "")
                    def_given = d not in (None, "")
                    if role_given and not valid_role(role):
                        errs.add("InvalidArn")
                    if def_given and op["def"] in INVALID_DEFS:
                        errs |= {"InvalidDefinition"} | ({"ValidationException"} if op["def"] in ("number", "list") else set())
                    junk = def_given and op["def"] in JUNK_DEFS
                    if def_given and op["def"] == "json_junk" and M.validate_asl:
                        errs.add("InvalidDefinition")
                    if not role_given and not def_given:
                        errs.add("MissingRequiredParameter")
                    if log is not None and op["log"] not in VALID_LOGS:
                        errs |= {"InvalidLoggingConfiguration"} | ({"ValidationException"} if op["log"] in ("string", "list") else set())
                    if errs:
                        tag = "+".join(sorted(errs - {"ValidationException"}))
                        check_refused(op, status, body, errs | ({"InvalidDefinition", "MissingRequiredParameter"} if junk else set()), before, tag)
                    elif junk and status != 200:
                        check_refused(op, status, body, {"InvalidDefinition", "MissingRequiredParameter"}, before, "junk-definition")
                    elif status != 200 or not isinstance(body, dict) or not isinstance(body.get("updateDate"), (int, float)):
                        fails.append(("update-refused-or-wrong-answer", "%s -> %s %r" % (js(op), status, body)))
                    else:
                        if not body["updateDate"] > rec["updateDate"]:
                            fails.append(("updateDate-not-advanced", "%s: updateDate %r after %r" % (js(op), body["updateDate"], rec["updateDate"])))
                        rec["updateDate"] = body["updateDate"]
                        if role_given:
                            rec["roleArn"] = role
                        if def_given:
                            rec["definition"] = json.loads(d)
                            rec["junk"] = junk
                        if log:     # an empty configuration counts as not supplied
                            rec["log"] = log
                elif kind == "list_executions":
                    flt = op.get("filter")
                    if flt is not None:
                        params["statusFilter"] = flt
                    status, body = eng.api("ListExecutions", params)
                    valid_filters = ("RUNNING", "SUCCEEDED", "FAILED", "TIMED_OUT", "ABORTED")
                    if errs:
                        check_refused(op, status, body, errs, before, "+".join(sorted(errs)))
                    elif flt is not None and (not isinstance(flt, str) or flt not in valid_filters):
                        if status >= 500:
                            fails.append(("internal-error:list_executions:invalid-filter", "%s -> %s %r" % (js(op), status, body)))
                        elif status == 200 and isinstance(body, dict) and isinstance(body.get("executions"), list):
                            # an invalid filter is either refused or ignored (the front ends reset it to "no filter"): an answer that lists neither everything nor an error
                            # presents a live set that is not there
                            want = sorted(a for a, e in M.executions.items() if e["stateMachineArn"] == arn)
                            got = sorted(e.get("executionArn") for e in body["executions"])
                            if want != got:
                                fails.append(("list-executions-invalid-filter-neither-refused-nor-ignored", "%s -> %r, live set %r" % (js(op), got, want)))
                    elif status != 200 or not isinstance(body, dict) or not isinstance(body.get("executions"), list):
                        fails.append(("list-executions-wrong-answer", "%s -> %s %r" % (js(op), status, body)))
                    else:
                        want = sorted(a for a, e in M.executions.items() if e["stateMachineArn"] == arn and (flt is None or e["status"] == flt))
                        got = sorted(e.get("executionArn") for e in body["executions"])
                        if want != got:
                            fails.append(("list-executions-wrong-set", "%s -> %r, model %r" % (js(op), got, want)))
                        for e in body["executions"]:
                            m = M.executions.get(e.get("executionArn"))
                            if m and (e.get("status") != m["status"] or e.get("name") != m["name"] or e.get("stateMachineArn") != arn):
                                fails.append(("list-executions-wrong-fields", "%r vs model %r" % (e, m)))
                elif kind == "start":
                    if rec is not None and rec["junk"]:
                        continue        # running uninterpretable machines is C18's subject
                    reused = None
                    if op["name"] == "reuse":
                        # (only used by the witness of the recorded finding: the generator never reuses a name)
                        reused = next((a for a in reversed(started) if M.executions[a]["stateMachineArn"] == arn), None)
                        if reused is None:
                            continue
                        name = M.executions[reused]["name"]
                    elif op["name"] == "auto":
                        name = None
                    elif op["name"] == "fresh":
                        exec_counter[0] += 1
                        name = "e%d" % exec_counter[0]
                    else:
                        name = NAMES[op["name"]]
                    inp = INPUTS[op["input"]]
                    if name is not None:
                        params["name"] = name
                    if inp is not None:
                        params["input"] = inp
                    status, body = eng.api("StartExecution", params)
                    if name is not None and not valid_name(name):
                        errs.add("InvalidName")
                    if op["input"] not in VALID_INPUTS:
                        errs |= {"InvalidExecutionInput"} | ({"ValidationException"} if op["input"] in ("number", "object_value") else set())
                    if reused is not None and not errs and M.executions[reused]["status"] != "RUNNING":
                        if status == 200:
                            fails.append(("duplicate-execution-name-accepted", "%s reused the name of the closed execution %s and was answered 200" % (js(op), reused)))
                            settle()
                        continue
                    if errs:
                        check_refused(op, status, body, errs, before, "+".join(sorted(errs - {"ValidationException"})))
                        settle()
                        if snap() != before:
                            fails.append(("refused-call-changed-store:start:later", js(op)))
                    elif status != 200 or not isinstance(body, dict) or not isinstance(body.get("executionArn"), str):
                        fails.append(("start-refused-or-wrong-answer", "%s -> %s %r" % (js(op), status, body)))
                    else:
                        earn = body["executionArn"]
                        prefix = arn.replace(":stateMachine:", ":execution:") + ":"
                        if not earn.startswith(prefix) or (name is not None and earn != prefix + name):
                            fails.append(("start-wrong-arn", "%s -> %r" % (js(op), earn)))
                        settle()
                        d = rec["definition"]
                        first = d["States"][d["StartAt"]]
                        value = VALID_INPUTS[op["input"]]
                        if rec["type"] == "STANDARD":
                            status_ = {"Pass": "SUCCEEDED", "Fail": "FAILED", "Wait": "RUNNING"}[first["Type"]]
                            out = (first.get("Result", value) if first["Type"] == "Pass" else None)
                            M.executions[earn] = {"stateMachineArn": arn, "name": earn[len(prefix):], "input": value, "status": status_, "output": out}
                            started.append(earn)
            elif kind == "list":
                status, body = eng.api("ListStateMachines", {})
                if status != 200 or not isinstance(body, dict) or not isinstance(body.get("stateMachines"), list):
                    fails.append(("list-wrong-answer", "%s %r" % (status, body)))
                else:
                    got = sorted((m.get("stateMachineArn"), m.get("name"), m.get("type"), m.get("creationDate")) for m in body["stateMachines"])
                    want = sorted((a, r["name"], r["type"], r["creationDate"]) for a, r in M.machines.items())
                    if got != want:
                        fails.append(("list-wrong-set", "got %r, model %r" % (got, want)))
                if snap() != before:
                    fails.append(("read-changed-store:list", js(op)))
            elif kind in ("describe_execution", "describe_for_execution"):
                ref = op["exec"]
                if ref == "!unknown":
                    earn = "arn:aws:states:local:%s:execution:m1:nosuch" % ACCOUNT
                elif ref == "!bad":
                    earn = "arn:aws:states:local:%s:stateMachine:m1" % ACCOUNT
                elif ref == "!omit":
                    earn = None
                elif ref == "!number":
                    earn = 3
                else:
                    if not started:
                        continue
                    earn = started[ref % len(started)]
                params = {} if earn is None else {"executionArn": earn}
                action = "DescribeExecution" if kind == "describe_execution" else "DescribeStateMachineForExecution"
                status, body = eng.api(action, params)
                errs = set()
                if earn is None:
                    errs |= {"MissingRequiredParameter", "InvalidArn"}
                elif not (isinstance(earn, str) and re.match(r"^arn:aws:states:[^:]+:[0-9]+:execution:.+$", earn)):
                    errs |= {"InvalidArn"}
                elif earn not in M.executions:
                    errs |= {"ExecutionDoesNotExist"}
                e = M.executions.get(earn) if isinstance(earn, str) else None
                if not errs and kind == "describe_for_execution" and e["stateMachineArn"] not in M.machines:
                    errs |= {"StateMachineDoesNotExist"}
                if errs:
                    check_refused(op, status, body, errs, before, "+".join(sorted(errs)))
                elif status != 200 or not isinstance(body, dict):
                    fails.append((kind + "-refused", "%s -> %s %r" % (js(op), status, body)))
                elif kind == "describe_execution":
                    bad = []
                    if body.get("executionArn") != earn or body.get("name") != e["name"] or body.get("stateMachineArn") != e["stateMachineArn"] or body.get("status") != e["status"]:
                        bad.append("identity/status")
                    try:
                        if json.loads(body.get("input")) != e["input"]:
                            bad.append("input")
                        if e["status"] == "SUCCEEDED" and json.loads(body.get("output")) != e["output"]:
                            bad.append("output")
                    except (TypeError, ValueError):
                        bad.append("input/output not JSON text")
                    if bad:
                        fails.append(("describe-execution-wrong-fields:" + "+".join(bad), "%s -> %r, model %r" % (js(op), body, e)))
                else:
                    rec = M.machines[e["stateMachineArn"]]
                    try:
                        ok = (json.loads(body.get("definition")) == rec["definition"] and body.get("name") == rec["name"] and body.get("roleArn") == rec["roleArn"]
                              and body.get("stateMachineArn") == e["stateMachineArn"] and body.get("updateDate") == rec["updateDate"])
                    except (TypeError, ValueError):
                        ok = False
                    if not ok:
                        fails.append(("describe-for-execution-wrong-fields", "%s -> %r, model %r" % (js(op), body, rec)))
                if snap() != before:
                    fails.append(("read-changed-store:" + kind, js(op)))
            else:
                raise HarnessError("unknown op %r" % (op,))
        # final sweep: every machine in the model is described back unchanged, nothing else exists
        st, body = eng.api("ListStateMachines", {})
        if st == 200:
            got = sorted(m.get("stateMachineArn") for m in body.get("stateMachines", []))
            if got != sorted(M.machines):
                fails.append(("final-live-set-differs", "got %r, model %r" % (got, sorted(M.machines))))
        for arn, rec in M.machines.items():
            st, body = eng.api("DescribeStateMachine", {"stateMachineArn": arn})
            fails.extend(compare_machine({"op": "final-describe", "sm": arn}, st, body, rec, front))
        for e in w.engine_exceptions:
            fails.append(("engine-callback-exception:%s:%s" % (e["type"], e["where"]), json.dumps(e)))
    finally:
        w.close()
    return fails


def compare_machine(op, status, body, rec, front):
    if status != 200 or not isinstance(body, dict):
        return [("describe-refused", "%s -> %s %r" % (js(op), status, body))]
    bad = []
    try:
        if not isinstance(body.get("definition"), str) or json.loads(body["definition"]) != rec["definition"]:
            bad.append("definition")
    except ValueError:
        bad.append("definition")
    for k in ("name", "roleArn", "type", "creationDate", "updateDate", "stateMachineArn"):
        if body.get(k) != rec[k]:
            bad.append(k)
    if body.get("status") != "ACTIVE":
        bad.append("status")
    if front == "asyncio":
        lc = body.get("loggingConfiguration")
        want = rec["log"] or {}
        if not isinstance(lc, dict) or lc.get("level") != want.get("level", "OFF") or any(lc.get(k) != v for k, v in want.items()):
            bad.append("loggingConfiguration")
    if bad:
        return [("describe-differs-from-model:" + "+".join(bad), "%s -> %r, model %r" % (js(op), body, rec))]
    return []


# ------------------------------------------------------------------ generator
def strategies():
    from hypothesis import strategies as st
    good_name = st.sampled_from(["m1", "m1", "m2", "m2", "m3", "max"])
    any_name = st.one_of(good_name, good_name, st.sampled_from(["space", "empty", "long", "colon", "number", "star"]))
    role = st.sampled_from(["r1", "r1", "r1", "r2", "bad_account", "not_arn", "empty", "number", "omit"])
    good_def = st.sampled_from(["pass", "pass2", "fail", "wait"])
    any_def = st.one_of(good_def, good_def, good_def, st.sampled_from(sorted(INVALID_DEFS | JUNK_DEFS) + ["omit"]))
    log = st.sampled_from(["omit"] * 6 + sorted(LOGS))
    typ = st.sampled_from(["omit", "omit", "STANDARD", "EXPRESS", "bogus", "lower", "list", "number"])
    sm = st.sampled_from(["m1"] * 4 + ["m2"] * 3 + SM_ARNS)
    create = st.fixed_dictionaries({"op": st.just("create"), "name": any_name, "role": role, "def": any_def, "type": typ, "log": log})
    create_ok = st.fixed_dictionaries({"op": st.just("create"), "name": good_name, "role": st.just("r1"), "def": good_def, "type": st.sampled_from(["omit", "STANDARD", "EXPRESS"]),
                                       "log": st.sampled_from(["omit", "omit", "off", "all"])})
    update = st.fixed_dictionaries({"op": st.just("update"), "sm": sm, "role": st.sampled_from(["omit", "omit", "r2", "r1", "bad_account", "empty", "number"]),
                                    "def": st.one_of(st.just("omit"), any_def), "log": log})
    # accepted updates of every shape (roleArn only, definition only, both) on machines that usually exist
    update_ok = st.fixed_dictionaries({"op": st.just("update"), "sm": st.sampled_from(["m1", "m1", "m2", "m3"]), "role": st.sampled_from(["omit", "r2", "r1"]), "def": st.one_of(st.just("omit"), good_def),
                                       "log": st.just("omit")})
    start = st.fixed_dictionaries({"op": st.just("start"), "sm": sm, "name": st.sampled_from(["fresh"] * 5 + ["auto", "space", "long", "number", "empty"]),
                                   "input": st.sampled_from(["omit", "obj", "obj", "list", "str", "null", "not_json", "empty", "number", "object_value"])})
    ex = st.one_of(st.integers(0, 5), st.integers(0, 5), st.sampled_from(["!unknown", "!bad", "!omit", "!number"]))
    other = st.one_of(
        st.fixed_dictionaries({"op": st.just("describe"), "sm": sm}),
        st.fixed_dictionaries({"op": st.just("delete"), "sm": sm}),
        st.fixed_dictionaries({"op": st.just("list")}),
        st.fixed_dictionaries({"op": st.just("list_executions"), "sm": sm, "filter": st.sampled_from([None, None, "RUNNING", "SUCCEEDED", "FAILED", "TIMED_OUT", "ABORTED", "BOGUS", "", ["RUNNING"], 7, 0, False, {}, []])}),
        st.fixed_dictionaries({"op": st.just("describe_execution"), "exec": ex}),
        st.fixed_dictionaries({"op": st.just("describe_for_execution"), "exec": ex}),
        st.fixed_dictionaries({"op": st.just("raw"), "action": st.sampled_from(["CreateStateMachine", "DescribeStateMachine", "UpdateStateMachine", "DeleteStateMachine", "StartExecution",
                                                                                  "ListExecutions", "DescribeExecution", "DescribeStateMachineForExecution", "ListStateMachines"]),
                               "body": st.sampled_from(RAW_BODIES)}),
    )
    one = st.one_of(create_ok, create_ok, create, update, update_ok, start, start, other, other, other)
    plain_ops = st.integers(4, 30).flatmap(lambda n: st.lists(one, min_size=n, max_size=n))

    # directed: a name is used again after its machine was deleted (create - read - delete - create with another definition - read), surrounded by arbitrary calls
    @st.composite
    def recreate(draw):
        nm = draw(st.sampled_from(["m1", "m2", "m3"]))
        d1, d2 = draw(st.permutations(["pass", "pass2", "fail", "wait"]))[:2]
        mk = lambda d: {"op": "create", "name": nm, "role": "r1", "def": d, "type": draw(st.sampled_from(["omit", "STANDARD", "EXPRESS"])), "log": "omit"}
        reads = lambda: [draw(st.sampled_from([{"op": "describe", "sm": nm}, {"op": "list"}, {"op": "describe", "sm": nm}]))]
        mid = draw(st.lists(one, max_size=3))
        return draw(st.lists(one, max_size=5)) + [mk(d1)] + reads() + [{"op": "delete", "sm": nm}] + mid + [mk(d2)] + reads() + draw(st.lists(one, max_size=5))
    # directed: several live machines (one name is a prefix of another) with executions of their own, then ListExecutions with every kind of filter
    @st.composite
    def listing(draw):
        nms = draw(st.permutations(["m1", "m2", "m3"]))[:draw(st.integers(2, 3))]
        out = [{"op": "create", "name": nm, "role": "r1", "def": draw(good_def), "type": draw(st.sampled_from(["omit", "STANDARD", "STANDARD", "EXPRESS"])), "log": "omit"} for nm in nms]
        for _ in range(draw(st.integers(1, 6))):
            out.append({"op": "start", "sm": draw(st.sampled_from(nms)), "name": draw(st.sampled_from(["fresh", "fresh", "auto"])), "input": draw(st.sampled_from(["omit", "obj", "list", "null"]))})
            out.extend(draw(st.lists(one, max_size=1)))
        flt = st.sampled_from([None, None, "RUNNING", "SUCCEEDED", "FAILED", "TIMED_OUT", "ABORTED", "BOGUS", "", ["RUNNING"], 7, 0, False, {}, []])
        for _ in range(draw(st.integers(2, 6))):
            out.append({"op": "list_executions", "sm": draw(st.sampled_from(nms)), "filter": draw(flt)})
        return out + draw(st.lists(one, max_size=4))
    ops = st.one_of(plain_ops, plain_ops, plain_ops, recreate(), listing())
    return st.fixed_dictionaries({"front": st.sampled_from(["asyncio", "blocking"]), "validate_asl": st.booleans(), "ops": ops})


def nontrivial(sc):
    ops = [o["op"] for o in sc["ops"]]
    return "create" in ops and ("update" in ops or "delete" in ops) and any(o in ops for o in ("describe", "list", "describe_for_execution")) and len(ops) >= 6


def classes(sc):
    c = {"front-" + sc["front"], "validate_asl-%s" % sc["validate_asl"]}
    for o in sc["ops"]:
        c.add("op-" + o["op"])
    c.add("len-%s" % ("<10" if len(sc["ops"]) < 10 else "<20" if len(sc["ops"]) < 20 else ">=20"))
    return sorted(c)


def shard(k, seed, tier, examples=60):
    import hypothesis
    from hypothesis import given, settings, HealthCheck, Phase
    camp = Campaign(PID, rule=RULE, tier=tier, seed=seed)

    @hypothesis.seed(seed)
    @settings(max_examples=examples, deadline=None, database=None, suppress_health_check=list(HealthCheck), phases=[Phase.generate])
    @given(strategies())
    def run(sc):
        try:
            fails = run_sequence(sc)
        except HarnessError as e:
            camp.harness_error("%s in %s" % (e, json.dumps(sc)[:600]))
            return
        except Exception as e:
            camp.harness_error("sequence %s crashed: %r %s" % (json.dumps(sc)[:600], e, traceback.format_exc()[-900:]))
            return
        camp.case(sc, nontrivial=bool(nontrivial(sc)), classes=classes(sc))
        for b, d in fails:
            camp.fail(b, sc, d)
    run()
    return camp.export()


def replay_case(case):
    return run_sequence(case)


def main(tier, seed, replay=None):
    camp = Campaign(PID, rule=RULE, tier=tier, seed=seed)
    camp.assumptions = [
        "an execution record exists once the engine has handled the start event: the harness lets the engine settle after every StartExecution before the next call",
        "when several arguments of one call are invalid, any of the corresponding documented error types is accepted (validation order is not part of the property); wrong JSON types may also be answered ValidationException",
        "definitions that are JSON but not a state machine ('null', '[]', '{}', no states) are refused when validate_asl is on; with it off either acceptance or InvalidDefinition/MissingRequiredParameter is accepted and the model follows the answer",
        "the blocking front end has no loggingConfiguration support, so logging configurations are only sent to the asyncio front end",
        "execution names are not reused within a sequence (the engine documents that it does not check uniqueness); an invalid statusFilter may be ignored or refused",
        "definitions are compared as JSON values (the API re-serialises them)",
    ]
    if replay:
        with open(replay) as fp:
            rec = json.load(fp)
        for b, d in replay_case(rec["case"]):
            camp.fail(b, rec["case"], d)
        camp.case(rec["case"], True)
        camp.min_nontrivial = 0
        camp.write_evidence = False
        return camp.finish()
    camp.run_witnesses(replay_case)
    if tier == "thorough":
        run_shards(camp, __name__, "shard", 16, examples=1200)
    else:
        run_shards(camp, __name__, "shard", 8, examples=250)
    return camp.finish()
