"""
C18 - validator-accepted machines run; uninterpretable ones hurt only themselves.

Three generated families:

A  totality     any JSON value (arbitrary values, well-formed machines, mutated machines)
                -> StateLint.validate returns a list of strings, never raises.
B  agreement    mutated machine for which the validator reports no problem -> stored with
                validate_asl on and executed: it must not fail for being an illegal machine
                (States.Runtime / stuck / exception in the engine).  The base machines use no
                paths except $.flag / $.items which the input always has, so States.Runtime
                can only come from the structure.
C  isolation    mutated machine / arbitrary JSON object stored with validate_asl off, or a
                mutated / arbitrary queue event, run beside a healthy execution under a
                generated schedule: the healthy one succeeds with its output, a later one
                too, nothing stays unacknowledged, no exception escapes a handler, and a
                poison execution that was announced RUNNING ends FAILED.
"""
import copy, json, traceback

from .. import env
from ..runner import Campaign, HarnessError, run_shards

PID = "C18"
RULE = ("case = (family, value): A = one JSON value given to the validator; B = one mutated machine the validator accepts, executed; C = one uninterpretable definition or queue event "
        "run beside healthy executions under a generated schedule. Non-trivial = A: the value is a mutated machine (not arbitrary JSON); B: every case (accepted mutants only); "
        "C: every case. Distinct by canonical JSON of the value.")

_lint = None


def lint():
    global _lint
    if _lint is None:
        env.setup_paths(fakes=True)
        from statelint.statelint import StateLint
        _lint = StateLint()
    return _lint


FN = "arn:aws:rpcmessage:local::function:echo"
BOOM = "arn:aws:rpcmessage:local::function:boom"
def _level(d):
    return {"flag": True, "items": [_level(d - 1), _level(d - 1)] if d else []}


INPUT = _level(2)      # every Map item is again an object with $.flag and $.items


ODD_NAMES = ["Result", "Parameters", "ItemSelector", "ResultSelector", "Next", "States", "Branches", "Iterator", "ItemProcessor", "Catch", "Retry", "Default", "Choices", "End", "Type",
             "StartAt", "x.y", "*", "q[0]", "a b", "it's", "$", "@", "a,b", "..", "e\u0301"]


# ------------------------------------------------------------ base machines
class G:
    def __init__(self, draw):
        self.draw = draw
        self.n = 0
        self.used = set()

    def name(self, kind):
        self.n += 1
        # state names are arbitrary strings: now and then one that is also an ASL field name, or that has characters with a meaning in JSONPath
        if self.int(0, 7) == 0:
            odd = [n for n in ODD_NAMES if n not in self.used]
            if odd:
                nm = self.pick(odd)
                self.used.add(nm)
                return nm
        return "%s%d" % (kind, self.n)

    def int(self, a, b):
        from hypothesis import strategies as st
        return self.draw(st.integers(a, b))

    def pick(self, xs):
        from hypothesis import strategies as st
        return self.draw(st.sampled_from(xs))


def machine(g, depth):
    """-> dict(StartAt, States): a chain of 1..4 states, ending in a terminal one."""
    k = g.int(1, 4)
    names = []
    states = {}
    kinds = ["Pass", "Task", "Wait", "Choice"] + (["Parallel", "Map"] if depth < 2 else [])
    for i in range(k):
        last = i == k - 1
        kind = g.pick(["Pass", "Task", "Succeed", "Fail", "Pass"] + (["Parallel"] if depth < 2 else [])) if last else g.pick(kinds)
        nm = g.name(kind[0])
        names.append(nm)
        if kind == "Pass":
            s = {"Type": "Pass"}
        elif kind == "Task":
            s = {"Type": "Task", "Resource": FN}
            if not last and g.int(0, 3) == 0:
                s = {"Type": "Task", "Resource": BOOM, "Catch": [{"ErrorEquals": ["States.ALL"], "ResultPath": "$.e", "Next": None}]}
            if g.int(0, 3) == 0:
                s["TimeoutSeconds"] = 30
            if g.int(0, 3) == 0:
                s["Retry"] = [{"ErrorEquals": ["States.ALL"], "MaxAttempts": 1, "IntervalSeconds": 1}]
        elif kind == "Wait":
            s = {"Type": "Wait", "Seconds": 0}
        elif kind == "Succeed":
            s = {"Type": "Succeed"}
        elif kind == "Fail":
            s = {"Type": "Fail", "Error": "Planned", "Cause": "planned failure"}
        elif kind == "Choice":
            s = {"Type": "Choice", "Choices": [{"Variable": "$.flag", "BooleanEquals": True, "Next": None}], "Default": None}
        elif kind == "Parallel":
            s = {"Type": "Parallel", "ResultPath": "$.r", "Branches": [machine(g, depth + 1) for _ in range(g.int(1, 2))]}
        elif kind == "Map":
            key = g.pick(["Iterator", "ItemProcessor"])
            s = {"Type": "Map", "ItemsPath": "$.items", "ResultPath": "$.m", key: machine(g, depth + 1)}
            if g.int(0, 1):
                s["MaxConcurrency"] = g.pick([0, 1, 2])
        states[nm] = s
    for i, nm in enumerate(names):
        s = states[nm]
        last = i == len(names) - 1
        if s["Type"] in ("Succeed", "Fail"):
            continue
        if s["Type"] == "Choice":
            s["Choices"][0]["Next"] = names[i + 1]
            s["Default"] = names[i + 1]
            # an extra rule jumping to the end keeps every state reachable
            if i + 2 < len(names) and g.int(0, 1):
                s["Choices"].append({"Variable": "$.flag", "BooleanEquals": False, "Next": names[-1]})
            continue
        if last:
            s["End"] = True
        else:
            s["Next"] = names[i + 1]
            if "Catch" in s:
                s["Catch"][0]["Next"] = names[i + 1]
    return {"StartAt": names[0], "States": states}


def scopes(defn, path=()):
    """All (sub)machines of a definition: list of (path, machine dict)."""
    out = [(path, defn)]
    if isinstance(defn, dict) and isinstance(defn.get("States"), dict):
        for nm, s in defn["States"].items():
            if not isinstance(s, dict):
                continue
            if isinstance(s.get("Branches"), list):
                for i, b in enumerate(s["Branches"]):
                    out += scopes(b, path + (nm, "Branches", i))
            for key in ("Iterator", "ItemProcessor"):
                if isinstance(s.get(key), dict):
                    out += scopes(s[key], path + (nm, key))
    return out


WRONG = [5, "str", None, True, [], {}, [1], {"a": 1}, -1, 1.5, ""]


def mutate(g, defn):
    """One structural mutation; returns (mutated definition, label)."""
    d = copy.deepcopy(defn)
    sc = [(p, m) for p, m in scopes(d) if isinstance(m, dict) and isinstance(m.get("States"), dict) and any(isinstance(x, dict) and x for x in m["States"].values())]
    if not sc:
        return d, "noop"
    path, m = g.pick(sc)
    names = [n for n, x in m["States"].items() if isinstance(x, dict) and x]
    nm = g.pick(names)
    s = m["States"][nm]
    op = g.pick(["drop", "drop", "wrong_type", "wrong_type", "retarget", "retarget", "retag", "dup_name", "both", "end_false", "unreachable", "extra_field",
                 "machine_field", "empty_states", "choice_shape", "rename", "empty_member", "empty_member", "non_object_member", "non_object_member", "dup_name_sibling", "dup_name_sibling", "odd_named_defective", "odd_named_defective", "max_concurrency"])
    label = op
    if op == "drop":
        fields = [f for f in s if f != "Comment"]
        f = g.pick(fields)
        del s[f]
        label = "drop:%s.%s" % (s.get("Type", "?") if f != "Type" else "Type", f)
    elif op == "wrong_type":
        f = g.pick(list(s))
        s[f] = g.pick(WRONG)
        label = "wrong_type:%s=%s" % (f, type(s[f]).__name__)
    elif op == "retarget":
        others = [n for p2, m2 in sc if m2 is not m for n in m2["States"]]
        target = g.pick(["Nowhere"] + others[:3])
        where = g.pick(["Next", "Default", "StartAt", "ChoiceNext", "CatchNext", "CatchNext"])
        if where == "CatchNext" and isinstance(s.get("Catch"), list) and s["Catch"] and isinstance(s["Catch"][0], dict):
            s["Catch"][0]["Next"] = g.pick([target, target, ""])
        elif where == "StartAt":
            m["StartAt"] = target
        elif where == "ChoiceNext" and s.get("Type") == "Choice" and isinstance(s.get("Choices"), list) and s["Choices"] and isinstance(s["Choices"][0], dict):
            s["Choices"][0]["Next"] = target
        elif where == "Default" and s.get("Type") == "Choice":
            s["Default"] = target
        else:
            if "Next" in s:
                s["Next"] = target
            else:
                m["StartAt"] = target
                where = "StartAt"
        label = "retarget:%s:%s" % (where, "nowhere" if target == "Nowhere" else "other-scope")
    elif op == "retag":
        s["Type"] = g.pick(["Bogus", "pass", "Task", "Pass", "Choice", "Wait", "Parallel", "Map", "Succeed", "Fail"])
        label = "retag:%s" % s["Type"]
    elif op == "dup_name":
        others = [n for p2, m2 in sc if m2 is not m for n in m2["States"]]
        if others:
            new = g.pick(others)
            m["States"][new] = m["States"].pop(nm)
            for s2 in m["States"].values():
                if isinstance(s2, dict):
                    if s2.get("Next") == nm:
                        s2["Next"] = new
                    if s2.get("Default") == nm:
                        s2["Default"] = new
                    for r in s2.get("Choices", []) if isinstance(s2.get("Choices"), list) else []:
                        if isinstance(r, dict) and r.get("Next") == nm:
                            r["Next"] = new
            if m.get("StartAt") == nm:
                m["StartAt"] = new
            label = "dup_name:across-scopes"
        else:
            label = "dup_name:none"
    elif op == "dup_name_sibling":
        # the same state name in two nested machines neither of which encloses the other (two Branches of one Parallel, the Iterators of two Maps, ...)
        sib = [(p2, m2) for p2, m2 in sc if m2 is not m and p2[:len(path)] != path and path[:len(p2)] != p2]
        if sib:
            p2, m2 = g.pick(sib)
            new = g.pick([n for n in m2["States"]])
            if new not in m["States"]:
                m["States"][new] = m["States"].pop(nm)
                for s2 in m["States"].values():
                    if isinstance(s2, dict):
                        if s2.get("Next") == nm:
                            s2["Next"] = new
                        if s2.get("Default") == nm:
                            s2["Default"] = new
                        for r in (s2.get("Choices") if isinstance(s2.get("Choices"), list) else []) + (s2.get("Catch") if isinstance(s2.get("Catch"), list) else []):
                            if isinstance(r, dict) and r.get("Next") == nm:
                                r["Next"] = new
                if m.get("StartAt") == nm:
                    m["StartAt"] = new
            label = "dup_name:sibling-scopes"
        else:
            label = "dup_name:no-sibling-scope"
    elif op == "both":
        s["Next"] = g.pick(names)
        s["End"] = True
    elif op == "end_false":
        s.pop("Next", None)
        s["End"] = False
    elif op == "unreachable":
        m["States"]["Orphan"] = {"Type": "Pass", "End": True}
    elif op == "extra_field":
        s[g.pick(["Foo", "next", "Resource", "Seconds", "Choices", "Branches", "Result", "Iterator"])] = g.pick(WRONG + ["x"])
    elif op == "machine_field":
        f = g.pick(["StartAt", "States", "TimeoutSeconds", "Version", "Comment"])
        how = g.pick(["drop", "wrong"])
        if how == "drop":
            m.pop(f, None)
        else:
            m[f] = g.pick(WRONG)
        label = "machine_field:%s:%s" % (f, how)
    elif op == "empty_states":
        m["States"] = {}
    elif op == "choice_shape":
        if s.get("Type") == "Choice" and isinstance(s.get("Choices"), list) and s["Choices"] and isinstance(s["Choices"][0], dict) and "Next" in s["Choices"][0]:
            how = g.pick(["no_choices", "empty_choices", "no_variable", "no_comparator", "two_comparators", "rule_wrong_type", "nested_next", "bad_comparator_type", "rule_next_wrong_type", "rule_next_wrong_type",
                          "default_wrong_type"])
            r = s["Choices"][0]
            if how == "no_choices":
                del s["Choices"]
            elif how == "empty_choices":
                s["Choices"] = []
            elif how == "no_variable":
                r.pop("Variable", None)
            elif how == "no_comparator":
                r.pop("BooleanEquals", None)
            elif how == "two_comparators":
                r["StringEquals"] = "x"
            elif how == "rule_wrong_type":
                s["Choices"][0] = g.pick(WRONG)
            elif how == "nested_next":
                s["Choices"][0] = {"And": [{"Variable": "$.flag", "BooleanEquals": True, "Next": r["Next"]}], "Next": r["Next"]}
            elif how == "bad_comparator_type":
                r["BooleanEquals"] = "yes"
            elif how == "rule_next_wrong_type":
                r["Next"] = g.pick([5, True, [1], {"a": 1}, 1.5])
            elif how == "default_wrong_type":
                s["Choices"] = [{"Variable": "$.flag", "BooleanEquals": "never", "Next": r["Next"]}]
                s["Default"] = g.pick([5, True, [1], {"a": 1}])
            label = "choice_shape:" + how
        else:
            label = "choice_shape:n/a"
    elif op == "odd_named_defective":
        # a defective state whose name is also an ASL field name / has JSONPath syntax in it, put on the path the standard input takes ($.flag is true) while
        # everything else stays reachable as before: the validator has to see the defect whatever the state is called
        free = [n for n in ODD_NAMES if n not in m["States"]]
        k = g.pick(free)
        defect = g.pick(["dangling-next", "branch-dangling-next", "branch-name-clash", "catch-dangling-next", "catch-unusable-next", "catch-unusable-next"])
        if defect == "dangling-next":
            bad = {"Type": "Pass", "Next": "Nowhere"}
        elif defect == "catch-dangling-next":
            bad = {"Type": "Task", "Resource": BOOM, "Catch": [{"ErrorEquals": ["States.ALL"], "Next": "Nowhere"}], "Next": m["StartAt"]}
        elif defect == "catch-unusable-next":
            # the Catcher matches, but the transition it asks for cannot be made at all (no Next, or one that is no state name)
            c_ = {"ErrorEquals": ["States.ALL"], "Next": g.pick(["", 5, None, [], {}, True])}
            if g.int(0, 3) == 0:
                del c_["Next"]
            bad = {"Type": "Task", "Resource": BOOM, "Catch": [c_], "Next": m["StartAt"]}
            if g.int(0, 1):
                # ... inside a Branch, beside a Branch that has finished (its event is held for the join)
                bad = {"Type": "Parallel", "Next": m["StartAt"], "Branches": [{"StartAt": "Zq1", "States": {"Zq1": {"Type": "Pass", "End": True}}},
                                                                                {"StartAt": "Zq2", "States": {"Zq2": dict(bad, End=True)}}]}
                bad["Branches"][1]["States"]["Zq2"].pop("Next")
        elif defect == "branch-dangling-next":
            bad = {"Type": "Parallel", "Branches": [{"StartAt": "Zq1", "States": {"Zq1": {"Type": "Pass", "Next": "Nowhere"}}}], "Next": m["StartAt"]}
        else:
            bad = {"Type": "Parallel", "Branches": [{"StartAt": nm, "States": {nm: {"Type": "Pass", "End": True}}}], "Next": m["StartAt"]}
        m["States"][k] = bad
        m["States"]["Zq0"] = {"Type": "Choice", "Choices": [{"Variable": "$.flag", "BooleanEquals": True, "Next": k}], "Default": m["StartAt"]}
        m["StartAt"] = "Zq0"
        label = "odd_named_defective:%s" % defect
    elif op == "max_concurrency":
        maps = [x for p2, m2 in sc for x in m2["States"].values() if isinstance(x, dict) and x.get("Type") == "Map"]
        if maps:
            v = g.pick([-1, -2, -1.0, 1.5, -0.5, "2", True, 10 ** 9])
            g.pick(maps)["MaxConcurrency"] = v
            label = "max_concurrency:%r" % (v,)
        else:
            label = "max_concurrency:n/a"
    elif op == "rename":
        m["States"][nm + "_renamed"] = m["States"].pop(nm)
    elif op == "empty_member":
        # an object that should carry fields is replaced by {}
        cands = [(s, f, i) for f in ("Branches", "Choices", "Retry", "Catch") if isinstance(s.get(f), list) for i in range(len(s[f]))]
        cands += [(s, f, None) for f in ("Iterator", "ItemProcessor") if isinstance(s.get(f), dict)]
        if cands:
            holder, f, i = g.pick(cands)
            if i is None:
                holder[f] = {}
            else:
                holder[f][i] = {}
            label = "empty_member:%s" % f
        else:
            m["States"][nm] = {}
            label = "empty_member:state"
    elif op == "non_object_member":
        # an object (state, Branch, rule, Retrier, Catcher, Iterator) is replaced by a value that is no object; transitions keep pointing at it
        cands = [(s, f, i) for f in ("Branches", "Choices", "Retry", "Catch") if isinstance(s.get(f), list) for i in range(len(s[f]))]
        cands += [(s, f, None) for f in ("Iterator", "ItemProcessor", "Parameters", "ResultSelector") if isinstance(s.get(f), dict)]
        cands += [(m["States"], nm, None)] * 3
        holder, f, i = g.pick(cands)
        v = g.pick([x for x in WRONG if not isinstance(x, dict)] + ["Parallel", "Pass"])
        if i is None:
            holder[f] = v
        else:
            holder[f][i] = v
        label = "non_object_member:%s=%s" % ("state" if holder is m["States"] else f, type(v).__name__)
    return d, label


# --------------------------------------------------------------- validator
def validate(value):
    """-> (problems or None, failure bucket or None)"""
    try:
        problems = lint().validate(copy.deepcopy(value))
    except Exception as e:
        tb = traceback.extract_tb(e.__traceback__)
        where = next((f for f in reversed(tb) if "/statelint/" in f.filename), tb[-1])
        return None, ("validator-raises:%s:%s:%s" % (type(e).__name__, where.name, where.lineno), "%r on %s" % (e, json.dumps(value)[:300]))
    if not isinstance(problems, list) or not all(isinstance(p, str) for p in problems):
        return None, ("validator-returns-non-list", repr(problems)[:200])
    return problems, None


# ----------------------------------------------------------------- engine
def quiet(horizon):
    def until(w):
        b = w.broker
        if b.pending_returns or w.pushed or b.deliverable() or b.due_timers():
            return False
        return not [t for t in b.live_timers() if not w.is_heartbeat(t) and t.deadline - w.clock.now <= horizon]
    return until


def run_accepted(defn):
    """Family B: a definition the validator accepts is stored (validate_asl on) and executed."""
    from .. import world as W
    fails = []
    w = W.World(seed=18, tick=0.0, validate_asl=True, orphan_retention_ms=3000)
    w.eager_time = False
    try:
        eng = w.add_engine("A")
        w.add_worker("echo", lambda i, p, props: [(0, p)])
        w.add_worker("boom", lambda i, p, props: [(0, {"errorType": "Boom", "errorMessage": "b"})])
        st, r = w.create_state_machine("mut", defn)
        if st != 200:
            # CreateStateMachine refuses an empty definition whatever the validator says: try to store it as an update
            st, r = w.create_state_machine("mut", {"StartAt": "X", "States": {"X": {"Type": "Pass", "End": True}}})
            st, r = eng.api("UpdateStateMachine", {"stateMachineArn": W.sm_arn("mut"), "definition": json.dumps(defn)})
            if st != 200:
                return [], "not-storable"
        st, r = w.start_execution(W.sm_arn("mut"), INPUT, name="e")
        if st != 200:
            return [("accepted-machine-cannot-start", "%s %r" % (st, r))], "ran"
        arn = r["executionArn"]
        res = w.run((), max_steps=3000, until=quiet(60))
        d = w.terminal(arn)
        if w.engine_exceptions:
            e = w.engine_exceptions[0]
            fails.append(("accepted-machine-raises-in-engine:%s:%s" % (e["type"], e["where"]), json.dumps(e)[:400]))
        if d is None:
            fails.append(("accepted-machine-never-ends", "no terminal status after %d steps (%s)" % (w.steps, res)))
        elif d["status"] == "FAILED" and d.get("error") == "States.Runtime":
            # States.Runtime is also the legitimate error of a path that does not match (a mutation may change the data flow, e.g. by dropping a ResultPath):
            # only the engine's own structural verdicts count
            cause = (d.get("cause") or "")
            kind = "illegal-state-machine" if "Illegal State Machine" in cause else "exception" if "caused the exception" in cause else None
            if kind:
                fails.append(("accepted-machine-fails-at-run-time:%s" % kind, cause[:300]))
        if w.broker.total_unacked("engine:A"):
            fails.append(("accepted-machine-leaves-unacked", "%d deliveries unacknowledged at quiescence" % w.broker.total_unacked("engine:A")))
    finally:
        w.close()
    return fails, "ran"


HEALTHY = {"StartAt": "A", "States": {"A": {"Type": "Pass", "Next": "B"}, "B": {"Type": "Task", "Resource": "arn:aws:rpcmessage:local::function:slowecho", "Next": "C"},
                                      "C": {"Type": "Pass", "Result": "done", "ResultPath": "$.c", "End": True}}}


def run_poison(sc):
    """Family C. sc: dict(kind='definition'|'event', value=..., schedule=[...])"""
    from .. import world as W
    W.install()
    import pika
    fails = []
    w = W.World(seed=18, tick=0.0, validate_asl=False, orphan_retention_ms=3000)
    w.eager_time = False
    try:
        eng = w.add_engine("A")
        w.add_worker("echo", lambda i, p, props: [(0, p)])
        w.add_worker("boom", lambda i, p, props: [(0, {"errorType": "Boom", "errorMessage": "b"})])
        w.add_worker("slowecho", lambda i, p, props: [(2, p)])
        st, r = w.create_state_machine("healthy", HEALTHY)
        if st != 200:
            raise HarnessError("healthy machine refused")
        st, r = w.start_execution(W.sm_arn("healthy"), {"n": 1}, name="h1")
        h1 = r["executionArn"]
        w.step(0)       # h1 is in flight (its Task is waiting for the worker)
        w.step(0)
        poison_arn = None
        status = "sent"
        if sc["kind"] == "definition":
            st, r = w.create_state_machine("poison", sc["value"], type_=sc.get("type", "STANDARD"))
            if st >= 500:
                fails.append(("internal-error:CreateStateMachine", "%s %r" % (st, r)))
            if st != 200:
                status = "refused"
            else:
                st, r = w.start_execution(W.sm_arn("poison"), INPUT, name="p1")
                if st >= 500:
                    fails.append(("internal-error:StartExecution", "%s %r" % (st, r)))
                if st == 200:
                    poison_arn = r["executionArn"]
        else:
            body = sc["value"]
            if isinstance(body, dict) and "__bytes_hex__" in body:
                raw = bytes.fromhex(body["__bytes_hex__"])
            else:
                raw = body.encode("utf8") if isinstance(body, str) else json.dumps(body).encode("utf8")
            w.harness_channel.basic_publish("", sc.get("queue", "asl_workflow_events"), raw,
                                            pika.BasicProperties(content_type="application/json", message_id=sc.get("message_id")))
        # A transition from inside a Branch to a state of an enclosing scope is followed by the engine as a recursive re-entry: every round nests another Branch
        # level (with a copy of the growing input) into the event. Such an execution is ended by the history limit in the end, but long before that its events
        # reach megabytes and a single case takes minutes and gigabytes: stop as soon as a queued event exceeds 300 kB and count the case as inconclusive.
        def runaway(w_):
            return any(len(m.body) > 300000 for q in w_.broker.queues.values() for m in q.messages)
        qt = quiet(60)
        res = w.run(sc.get("schedule", ()), max_steps=3000, until=lambda w_: runaway(w_) or qt(w_))
        if runaway(w):
            return "growing"
        if res == "max_steps":
            # The poison execution keeps producing events without virtual time passing (e.g. a transition into an enclosing scope that the engine follows as a loop).
            # A loop is legal in the States Language and is ended by the 25000-event history limit (checked in C16); while it spins, virtual time cannot advance for
            # the healthy execution's worker, so nothing further can be concluded from this run: it is counted, not judged.
            hist = eng.state_engine.execution_history.get(poison_arn, []) if poison_arn else []
            n0 = len(hist)
            w.run((), max_steps=w.steps + 400, until=quiet(60))
            n1 = len(eng.state_engine.execution_history.get(poison_arn, [])) if poison_arn else 0
            if poison_arn and n1 > n0:
                return "loop"
            if poison_arn and sc.get("type") == "EXPRESS":
                return "loop"       # an EXPRESS execution keeps no history: a loop (legal, and bounded only by its time-out) cannot be told from the history here either
            return [("poison-execution-runs-away", "still producing events after %d steps without its history growing (%d -> %d events)" % (w.steps, n0, n1))]
        # a later execution still completes
        st, r = w.start_execution(W.sm_arn("healthy"), {"n": 2}, name="h2")
        h2 = r["executionArn"] if st == 200 else None
        res2 = w.run((), max_steps=3000, until=quiet(60))
        for tag, arn, n in (("concurrent", h1, 1), ("later", h2, 2)):
            d = w.terminal(arn) if arn else None
            if d is None or d["status"] != "SUCCEEDED" or json.loads(d["output"]) != {"n": n, "c": "done"}:
                fails.append(("healthy-execution-affected:%s" % tag, "healthy execution ended %r" % (d and {k: d.get(k) for k in ("status", "error", "output")},)))
        for e in w.engine_exceptions:
            fails.append(("exception-escapes-handler:%s:%s" % (e["type"], e["where"]), json.dumps(e)[:400]))
        n_un = w.broker.total_unacked("engine:A")
        if n_un:
            fails.append(("poison-not-acknowledged", "%d deliveries to the engine are still unacknowledged at quiescence" % n_un))
        ready = {q: len(w.broker.queues[q].messages) for q in w.broker.queues if q.startswith("asl_workflow_events") and w.broker.queues[q].messages}
        if ready:
            fails.append(("poison-left-in-queue", repr(ready)))
        if poison_arn:
            notes = w.notifications_for(poison_arn)
            if notes and w.terminal(poison_arn) is None:
                fails.append(("poison-execution-stuck-running", "announced RUNNING, never ended"))
            if not notes and sc.get("type", "STANDARD") == "STANDARD":
                # StartExecution answered 200 with this ARN: the execution exists for its caller and has to end FAILED, not vanish without a record or a notification
                st_d, r_d = w.describe_execution(poison_arn)
                fails.append(("poison-execution-vanished", "StartExecution returned %s; no notification was ever published and DescribeExecution answers %s %r" % (poison_arn, st_d, r_d)))
            d = w.terminal(poison_arn)
            if d is not None and d["status"] not in ("FAILED", "SUCCEEDED"):
                fails.append(("poison-execution-odd-status", repr(d["status"])))
        # the poison event is acknowledged once, after what its handling led to (the FAILED status of its execution) has been published, and nothing of it stays behind
        from .. import monitors as M
        am = M.AckMonitor([])
        for b_, d_ in am.finish(w):
            if b_.startswith(("publish-after-ack", "delivery-acked-twice", "ack-of-unknown", "drain:unacknowledged_messages")):
                fails.append(("poison:" + b_, d_))
        if not eng.alive:
            fails.append(("engine-died", "the engine process exited"))
        if w.broker.protocol_errors:
            fails.append(("protocol-error", repr(w.broker.protocol_errors[:2])))
    finally:
        w.close()
    return fails


# -------------------------------------------------------------- scenarios
def start_event(W):
    return {"data": {"flag": True}, "context": {"Execution": {"Id": "arn:aws:states:local:0123456789:execution:healthy:raw1", "Input": {"flag": True}, "Name": "raw1",
                                                              "RoleArn": W.ROLE_ARN, "StartTime": "2023-11-14T22:13:20+00:00"},
                                                "State": {"EnteredTime": "2023-11-14T22:13:20+00:00", "Name": ""},
                                                "StateMachine": {"Id": W.sm_arn("healthy"), "Name": "healthy"}}}


def strategies():
    from hypothesis import strategies as st
    json_leaf = st.one_of(st.none(), st.booleans(), st.integers(-3, 3), st.floats(allow_nan=False, allow_infinity=False, width=16), st.text(max_size=4),
                          st.sampled_from(["Pass", "Task", "States", "StartAt", "$.a", "$", "Next"]))
    keys = st.sampled_from(["StartAt", "States", "Type", "Next", "End", "Choices", "Branches", "Iterator", "Resource", "Comment", "a", "Variable", "And", "Not", "Retry", "Catch",
                            "ErrorEquals", "Parameters", "ItemProcessor", "ProcessorConfig", "Mode", "ItemReader"])
    any_json = st.recursive(json_leaf, lambda c: st.one_of(st.lists(c, max_size=3), st.dictionaries(keys, c, max_size=4)), max_leaves=12)

    @st.composite
    def base(draw):
        return machine(G(draw), 0)

    @st.composite
    def mutant(draw):
        g = G(draw)
        d = machine(g, 0)
        labels = []
        for _ in range(draw(st.sampled_from([1, 1, 1, 2]))):
            d, lab = mutate(g, d)
            labels.append(lab)
        return d, labels

    sched = st.lists(st.integers(0, 4), max_size=30)
    A1 = any_json.map(lambda v: {"family": "A", "value": v, "labels": ["arbitrary-json"]})
    A2 = base().map(lambda v: {"family": "A", "value": v, "labels": ["well-formed"]})
    M = st.one_of(mutant().map(lambda t: {"family": "M", "value": t[0], "labels": t[1]}), mutant().map(lambda t: {"family": "M", "value": t[0], "labels": t[1]}),
                  mutant().map(lambda t: {"family": "M", "value": t[0], "labels": t[1]}),
                  st.sampled_from([{}, [], None, 0, "s", {"States": {}}, {"StartAt": "A"}, [{}]]).map(lambda v: {"family": "M", "value": v, "labels": ["top-level-odd-value"]}))
    Cdef = st.tuples(st.one_of(mutant().map(lambda t: t), any_json.filter(lambda v: isinstance(v, dict) and v).map(lambda v: (v, ["arbitrary-object"]))), sched, st.sampled_from(["STANDARD", "STANDARD", "EXPRESS"])).map(
        lambda t: {"family": "C", "kind": "definition", "value": t[0][0], "labels": t[0][1], "schedule": t[1], "type": t[2]})

    @st.composite
    def event(draw):
        from .. import world as W
        W.install()
        ev = start_event(W)
        how = draw(st.sampled_from(["arbitrary", "arbitrary", "not-json", "not-utf8", "drop", "drop", "replace", "replace", "unknown-machine", "unknown-state", "mid-state", "map-reentry-marker", "parallel-bad-start-time"]))
        if how == "arbitrary":
            ev = draw(any_json)
        elif how == "not-json":
            ev = draw(st.sampled_from(["{bad", "", "\x00\x01", "[1,", "nul"]))
        elif how == "not-utf8":
            # a body that is not UTF-8 text at all: JSON in another encoding, a lone continuation byte, a truncated multi-byte sequence, a binary blob
            good = json.dumps(ev)
            ev = {"__bytes_hex__": draw(st.sampled_from([good.encode("utf-16").hex(), ('{"data": "caf\xe9"}').encode("latin-1").hex(), "80", "e282", "fffe00", good.encode("utf8").hex() + "ff",
                                                         "c328", "00ff00ff"]))}
        elif how in ("drop", "replace"):
            paths = [("data",), ("context",), ("context", "Execution"), ("context", "Execution", "Id"), ("context", "Execution", "Input"), ("context", "Execution", "Name"),
                     ("context", "Execution", "StartTime"), ("context", "State"), ("context", "State", "Name"), ("context", "State", "EnteredTime"), ("context", "StateMachine"),
                     ("context", "StateMachine", "Id"), ("context", "StateMachine", "Name"), ("context", "Execution", "RoleArn")]
            p = draw(st.sampled_from(paths))
            tgt = ev
            for k in p[:-1]:
                tgt = tgt[k]
            if how == "drop":
                del tgt[p[-1]]
            else:
                tgt[p[-1]] = draw(st.sampled_from(WRONG + ["not a time", "arn:aws:states:local:0123456789:execution:x", "arn:bad"]))
            how = "%s:%s" % (how, ".".join(p))
        elif how == "unknown-machine":
            ev["context"]["StateMachine"]["Id"] = W.sm_arn("nosuch")
        elif how == "unknown-state":
            ev["context"]["State"]["Name"] = "Nowhere"
        elif how == "map-reentry-marker":
            # an event that re-enters a Map state for its next MaxConcurrency block, with a marker the engine cannot read (the definition travels in the event)
            ev["context"]["StateMachine"]["Definition"] = {"StartAt": "M", "States": {"M": {"Type": "Map", "ItemsPath": "$.items", "MaxConcurrency": 1, "End": True,
                                                           "Iterator": {"StartAt": "P", "States": {"P": {"Type": "Pass", "End": True}}}}}}
            ev["context"]["StateMachine"]["Id"] = W.sm_arn("byvalue")       # (a definition in an event replaces the stored one of that ARN)
            ev["context"]["StateMachine"]["Name"] = "byvalue"
            ev["context"]["Execution"]["Id"] = "arn:aws:states:local:0123456789:execution:byvalue:raw1"
            ev["data"] = {"items": [1, 2, 3]}
            ev["context"]["State"]["Name"] = "M"
            ev["context"]["State"]["Branch"] = [{"Parent": "M", "ID": "x", "Range": draw(st.sampled_from(["a:b", "1", "", ":", "1:x", 5, None, [1, 2], "-1:2", "1:99"]))}]
        elif how == "parallel-bad-start-time":
            # a start event whose Execution.StartTime the engine cannot read, for a machine with a Parallel state (the definition travels in the event)
            ev["context"]["StateMachine"]["Definition"] = {"StartAt": "Par", "States": {"Par": {"Type": "Parallel", "End": True, "Branches": [
                {"StartAt": "A", "States": {"A": {"Type": "Pass", "End": True}}}, {"StartAt": "B", "States": {"B": {"Type": "Pass", "End": True}}}]}}}
            ev["context"]["StateMachine"]["Id"] = W.sm_arn("byvalue2")
            ev["context"]["StateMachine"]["Name"] = "byvalue2"
            ev["context"]["Execution"]["Id"] = "arn:aws:states:local:0123456789:execution:byvalue2:raw1"
            ev["context"]["Execution"]["StartTime"] = draw(st.sampled_from(["2024-01-01T00:00:00", "not a time", "2024-01-01", 5, None, "2024-13-01T00:00:00Z"]))
        elif how == "mid-state":
            ev["context"]["State"]["Name"] = draw(st.sampled_from(["B", "C"]))
            ev["context"]["State"]["Branch"] = draw(st.sampled_from([[], [{"ID": "x"}], "str", [{"Index": 0, "Parent": "A", "ID": "y", "Input": {}}], None]))
        return {"family": "C", "kind": "event", "value": ev, "labels": ["event:" + how], "queue": draw(st.sampled_from(["asl_workflow_events", "asl_workflow_events", "asl_workflow_events-A"])),
                "message_id": draw(st.sampled_from([None, "mid-1"])), "schedule": draw(sched)}
    return A1, A2, M, Cdef, event()


def run_scenario(sc):
    """-> (fails, classes, nontrivial)"""
    fam = sc["family"]
    labels = list(sc.get("labels", []))
    if fam in ("A", "M"):
        problems, bad = validate(sc["value"])
        fails = [bad] if bad else []
        classes = ["family-A-totality"] + ["mut-" + l.split(":")[0] for l in labels]
        nontrivial = fam == "M"
        if fam == "M" and problems is not None:
            classes.append("validator-accepts" if not problems else "validator-rejects")
            if not problems:
                f2, how = run_accepted(sc["value"])
                fails += [(b + ":" + "+".join(sorted(set(l.split("=")[0] for l in labels))), d) for b, d in f2]
                classes.append("family-B-agreement:" + how)
        return fails, classes, nontrivial
    fails = run_poison(sc)
    if fails == "loop":
        return [], ["family-C-isolation", "poison-loops-until-history-limit(inconclusive)"], False
    if fails == "growing":
        return [], ["family-C-isolation", "poison-recursion-with-growing-events(inconclusive)"], False
    classes = ["family-C-isolation", "poison-" + sc["kind"]] + (["poison-type-" + sc["type"]] if sc.get("type") else []) + ["mut-" + l.split(":")[0] for l in labels] + (["schedule-deviating"] if any(sc.get("schedule", ())) else [])
    return fails, classes, True


def shard(k, seed, tier, examples=60):
    import hypothesis
    from hypothesis import given, settings, HealthCheck, Phase, strategies as st
    camp = Campaign(PID, rule=RULE, tier=tier, seed=seed)
    A1, A2, M, Cdef, Cev = strategies()

    @hypothesis.seed(seed)
    @settings(max_examples=examples, deadline=None, database=None, suppress_health_check=list(HealthCheck), phases=[Phase.generate])
    @given(st.one_of(A1, A2, M, M, M, M, Cdef, Cdef, Cev, Cev))
    def run(sc):
        try:
            fails, classes, nt = run_scenario(sc)
        except HarnessError as e:
            camp.harness_error("%s in %s" % (e, json.dumps(sc, default=str)[:500]))
            return
        except Exception as e:
            camp.harness_error("scenario %s crashed: %r %s" % (json.dumps(sc, default=str)[:500], e, traceback.format_exc()[-900:]))
            return
        camp.case(sc, nontrivial=nt, classes=classes)
        for b, d in fails:
            camp.fail(b, sc, d)
    run()
    return camp.export()


def replay_case(case):
    return run_scenario(case)[0]


def main(tier, seed, replay=None):
    camp = Campaign(PID, rule=RULE, tier=tier, seed=seed)
    camp.assumptions = [
        "base machines use no paths other than $.flag / $.items (always present in the input) and their workers echo the input, so that a States.Runtime failure can only come from the machine's structure",
        "'fails at run time for being an illegal state machine' = an accepted definition that cannot be started, raises inside the engine, never ends, or fails with States.Runtime / an error other than its own Fail state's",
        "a definition so broken that no execution is ever announced (the start event is dropped and acknowledged) is accepted by the isolation clause; one that was announced RUNNING must end",
        "an exception escaping an engine callback counts as a violation of 'the engine keeps serving' (with the blocking transport it ends the process)",
        "coverage-guided family (atheris, structure-aware JSON mutator seeded with three machines that use every state type): totality for every input; for inputs the validator accepts only "
        "'cannot start', 'exception escapes the engine', 'Illegal State Machine' and 'terminal but unacknowledged' are asserted, because a fuzz-made machine may loop, wait or mis-address data legitimately",
    ]
    if replay:
        with open(replay) as fp:
            rec = json.load(fp)
        for b, d in replay_case(rec["case"]):
            camp.fail(b, rec["case"], d)
        camp.case(rec["case"], True)
        camp.min_nontrivial = 0
        camp.write_evidence = False
        return camp.finish()
    camp.run_witnesses(replay_case)
    # directed poison definitions (rare in the random mutants): a failure is caught, but the transition its Catcher asks for cannot be made at all, at the top level and
    # inside a Branch beside a Branch that has already finished; the execution has to end FAILED with nothing held back
    for nxt in ("", 5, None, [], "__missing__"):
        for where in ("top", "branch"):
            for typ in ("STANDARD", "EXPRESS"):
                c_ = {"ErrorEquals": ["States.ALL"], "Next": nxt}
                if nxt == "__missing__":
                    del c_["Next"]
                t_ = {"Type": "Task", "Resource": BOOM, "Catch": [c_]}
                if where == "top":
                    d_ = {"StartAt": "T", "States": {"T": dict(t_, Next="P"), "P": {"Type": "Pass", "End": True}}}
                else:
                    d_ = {"StartAt": "Par", "States": {"Par": {"Type": "Parallel", "End": True, "Branches": [{"StartAt": "A", "States": {"A": {"Type": "Pass", "End": True}}},
                                                                                                        {"StartAt": "T", "States": {"T": dict(t_, End=True)}}]}}}
                sc = {"family": "C", "kind": "definition", "value": d_, "labels": ["directed:catch-unusable-next:" + where], "schedule": [], "type": typ}
                try:
                    fails_, classes_, _nt = run_scenario(sc)
                except Exception as e:
                    camp.harness_error("directed poison definition crashed the harness: %r" % (e,))
                    continue
                camp.case(sc, nontrivial=True, classes=["directed"] + list(classes_))
                for b, d in fails_:
                    camp.fail(b, sc, d)
    # directed: Map states whose MaxConcurrency is no non-negative integer, stored unvalidated
    for mc_ in (-1, -2, 1.5, "2", True, None, [1]):
        for typ in ("STANDARD", "EXPRESS"):
            d_ = {"StartAt": "M", "States": {"M": {"Type": "Map", "ItemsPath": "$.items", "MaxConcurrency": mc_, "ResultPath": "$.m", "End": True,
                                                   "ItemProcessor": {"StartAt": "I", "States": {"I": {"Type": "Task", "Resource": FN, "End": True}}}}}}
            sc = {"family": "C", "kind": "definition", "value": d_, "labels": ["directed:max_concurrency:%r" % (mc_,)], "schedule": [], "type": typ}
            try:
                fails_, classes_, _nt = run_scenario(sc)
            except Exception as e:
                camp.harness_error("directed poison definition crashed the harness: %r" % (e,))
                continue
            camp.case(sc, nontrivial=True, classes=["directed"] + list(classes_))
            for b, d in fails_:
                camp.fail(b, sc, d)
    # directed: one state name used in two scopes of the same machine (sibling Branches, the ItemProcessors of two Maps, parent and child, cousins two levels down).  The engine
    # refuses a transition to such a name ("non-unique state ... Illegal State Machine"), so the validator has to report it: accepted => runs.
    def _task(name, **kw):
        return {name: dict({"Type": "Task", "Resource": FN}, **kw)}

    def _par(*branches, **kw):
        return dict({"Type": "Parallel", "Branches": [{"StartAt": list(b)[0], "States": b} for b in branches]}, **kw)

    def _map(states, **kw):
        return dict({"Type": "Map", "ItemsPath": "$.items", "ItemProcessor": {"StartAt": list(states)[0], "States": states}}, **kw)
    dup_defs = {
        "sibling-branches": {"StartAt": "P", "States": {"P": _par(_task("Work", End=True), _task("Work", End=True), End=True)}},
        "sibling-branches-second-state": {"StartAt": "P", "States": {"P": _par(dict(_task("A1", Next="Work"), **_task("Work", End=True)), dict(_task("B1", Next="Work"), **_task("Work", End=True)), End=True)}},
        "two-maps": {"StartAt": "M1", "States": {"M1": _map(_task("Work", End=True), ResultPath="$.m1", Next="M2"), "M2": _map(_task("Work", End=True), ResultPath="$.m2", End=True)}},
        "map-and-branch": {"StartAt": "M1", "States": {"M1": _map(_task("Work", End=True), ResultPath="$.m1", Next="P"), "P": _par(_task("Work", End=True), _task("Other", End=True), End=True)}},
        "parent-and-child": {"StartAt": "Work", "States": {"Work": _par(_task("Work", End=True), _task("Other", End=True), End=True)}},
        "top-level-and-branch": {"StartAt": "P", "States": dict({"P": _par(_task("Work", End=True), _task("Other", End=True), Next="Work")}, **_task("Work", End=True))},
        "cousins": {"StartAt": "P", "States": {"P": _par({"Q1": _par(_task("Work", End=True), _task("X1", End=True), End=True)}, {"Q2": _par(_task("Work", End=True), _task("X2", End=True), End=True)}, End=True)}},
        "uncle-and-nephew": {"StartAt": "P", "States": {"P": _par({"Q1": _par(_task("Work", End=True), _task("X1", End=True), End=True)}, _task("Work", End=True), End=True)}},
        "control:unique-names": {"StartAt": "P", "States": {"P": _par(_task("Work1", End=True), _task("Work2", End=True), End=True)}},
    }
    for label_, d_ in dup_defs.items():
        sc = {"family": "M", "value": d_, "labels": ["directed-duplicate-state-name:" + label_]}
        try:
            fails_, classes_, _nt = run_scenario(sc)
        except Exception as e:
            camp.harness_error("directed duplicate-name definition crashed the harness: %r" % (e,))
            continue
        camp.case(sc, nontrivial=True, classes=["directed", "directed-duplicate-state-name"] + list(classes_))
        for b, d in fails_:
            camp.fail(b, sc, d)
    from .. import fuzz
    if tier == "thorough":
        run_shards(camp, __name__, "shard", 16, examples=2500)
        fuzz.campaign(camp, __name__, runs=40000, shards=16)
    else:
        run_shards(camp, __name__, "shard", 8, examples=300)
        if fuzz.available():
            fuzz.campaign(camp, __name__, runs=800, shards=8)
        else:
            camp.extra["fuzz"] = "atheris not importable: the coverage-guided family was skipped in the quick tier (the thorough tier requires it)"
    return camp.finish()


# ------------------------------------------------------------ coverage-guided family (thorough tier)
FUZZ_SEEDS = [
    {"Comment": "c", "StartAt": "A", "TimeoutSeconds": 60, "Version": "1.0", "States": {
        "A": {"Type": "Pass", "Result": {"a": 1}, "ResultPath": "$.r", "InputPath": "$", "OutputPath": "$", "Parameters": {"x.$": "$.flag", "y": [1, {"z.$": "States.Format('{}', $.flag)"}]}, "Next": "C"},
        "C": {"Type": "Choice", "Choices": [
            {"Variable": "$.flag", "BooleanEquals": True, "Next": "T"},
            {"And": [{"Variable": "$.a", "NumericGreaterThan": 1}, {"Not": {"Variable": "$.s", "StringMatches": "a*"}}, {"Or": [{"Variable": "$.t", "TimestampLessThanPath": "$.u"}, {"Variable": "$.t", "IsPresent": True}]}], "Next": "W"}],
            "Default": "F"},
        "T": {"Type": "Task", "Resource": FN, "TimeoutSeconds": 5, "HeartbeatSeconds": 2, "ResultSelector": {"v.$": "$"}, "Retry": [{"ErrorEquals": ["States.Timeout", "E"], "IntervalSeconds": 1, "MaxAttempts": 2, "BackoffRate": 1.5}],
              "Catch": [{"ErrorEquals": ["States.ALL"], "ResultPath": "$.e", "Next": "F"}], "Next": "W"},
        "W": {"Type": "Wait", "Seconds": 1, "Next": "S"},
        "S": {"Type": "Succeed"},
        "F": {"Type": "Fail", "Error": "E", "Cause": "c"}}},
    {"StartAt": "P", "States": {
        "P": {"Type": "Parallel", "Branches": [{"StartAt": "A", "States": {"A": {"Type": "Pass", "End": True}}}, {"StartAt": "B", "States": {"B": {"Type": "Wait", "Timestamp": "2020-01-01T00:00:00Z", "End": True}}}],
              "ResultPath": "$.p", "Next": "M"},
        "M": {"Type": "Map", "ItemsPath": "$.items", "MaxConcurrency": 2, "ItemSelector": {"i.$": "$$.Map.Item.Value"}, "Iterator": {"StartAt": "I", "States": {"I": {"Type": "Pass", "End": True}}},
              "Retry": [{"ErrorEquals": ["States.ALL"]}], "Next": "W2"},
        "W2": {"Type": "Wait", "SecondsPath": "$.n", "Next": "W3"},
        "W3": {"Type": "Wait", "TimestampPath": "$.t", "End": True}}},
    {"StartAt": "M", "States": {"M": {"Type": "Map", "ItemProcessor": {"ProcessorConfig": {"Mode": "INLINE"}, "StartAt": "I", "States": {"I": {"Type": "Task", "Resource": BOOM, "TimeoutSecondsPath": "$.n", "End": True}}},
                                      "Parameters": {"a": 1}, "ToleratedFailurePercentage": 0, "End": True}}},
]
FUZZ_DICT = ["StartAt", "States", "Type", "Next", "End", "true", "false", "null", "Pass", "Task", "Choice", "Wait", "Succeed", "Fail", "Parallel", "Map", "Choices", "Default", "Variable",
             "And", "Or", "Not", "Branches", "Iterator", "ItemProcessor", "ProcessorConfig", "Mode", "INLINE", "DISTRIBUTED", "ItemReader", "ItemBatcher", "ResultWriter", "ItemsPath", "ItemSelector",
             "MaxConcurrency", "MaxConcurrencyPath", "ToleratedFailureCount", "ToleratedFailurePercentage", "Resource", "Parameters", "ResultSelector", "ResultPath", "InputPath", "OutputPath",
             "Result", "Retry", "Catch", "ErrorEquals", "IntervalSeconds", "MaxAttempts", "BackoffRate", "MaxDelaySeconds", "JitterStrategy", "FULL", "NONE", "TimeoutSeconds", "TimeoutSecondsPath",
             "HeartbeatSeconds", "HeartbeatSecondsPath", "Seconds", "SecondsPath", "Timestamp", "TimestampPath", "Error", "Cause", "ErrorPath", "CausePath", "Comment", "Version", "Credentials",
             "States.ALL", "States.Timeout", "StringEquals", "StringEqualsPath", "StringMatches", "NumericEquals", "NumericLessThanPath", "BooleanEquals", "BooleanEqualsPath", "TimestampEquals",
             "TimestampGreaterThanEqualsPath", "IsPresent", "IsNull", "IsNumeric", "IsString", "IsBoolean", "IsTimestamp", "$.a", "$", "$$.Map.Item.Value", ".$", "\"\"", "{}", "[]", "[{}]", "1e9", "-1", "0.5",
             "2020-01-01T00:00:00Z", "arn:aws:lambda:us-east-1:123456789012:function:f", "States.Format('{}', $.a)", "QueryLanguage", "JSONPath", "JSONata", "Assign", "Output", "Arguments", "Items"]


def fuzz_setup():
    lint()
    from .. import world as W
    W.install()
    return {"dict": FUZZ_DICT, "corpus": [json.dumps(s) for s in FUZZ_SEEDS] + [json.dumps(s, indent=1) for s in FUZZ_SEEDS[:1]], "max_len": 4096, "json_mutator": True, "leaves": WRONG + ["$.flag", "$.items", FN, BOOM, "States.ALL"]}


def fuzz_one(data):
    try:
        value = json.loads(data.decode("utf-8"))
    except (ValueError, RecursionError):
        return None
    problems, bad = validate(value)
    fails = [bad] if bad else []
    classes = ["fuzz-family-A-totality", "fuzz-top-" + type(value).__name__]
    nontrivial = isinstance(value, dict) and isinstance(value.get("States"), dict) and len(value["States"]) > 0
    if problems is not None:
        classes.append("fuzz-validator-accepts" if not problems else "fuzz-validator-rejects")
        if not problems:
            f2, how = run_accepted(value)
            # a fuzz-made machine may loop or wait legitimately (no acyclicity or path discipline here): only the verdicts that cannot be the machine's own doing count
            running = any(b.startswith("accepted-machine-never-ends") for b, _ in f2)
            fails += [(b + ":fuzz", d) for b, d in f2 if not b.startswith("accepted-machine-never-ends") and not b.startswith("accepted-machine-fails-at-run-time:exception") and not (running and b.startswith("accepted-machine-leaves-unacked"))]
            classes.append("fuzz-family-B-agreement:" + how)
    return {"case": {"family": "M", "value": value, "labels": ["fuzz"]}, "classes": classes, "nontrivial": nontrivial, "fails": fails}
