"""
C06 - a failing branch fails its Parallel/Map once; siblings cannot disturb the result.

Structured fan-outs with generated failure assignments (none / one / several / all
branches; task error reply, time-out, Fail state, runtime path error), Retry/Catch
on the fan-out, slow siblings (so that late replies, queued events and later
failures exist), optional outer Parallel, under generated schedules.  The C02, C03
and C09 monitors run on every case; extra oracles: the outcome is one of the
reference outcomes for an admissible "first failing branch", the fan-out is
started once per attempt, and no sibling issues a request after the failure was
processed.
"""
import copy, json

from . import _monitored as mon
from .. import sched as S
from .. import world as W
from ..ref import interp as ri
from .. import harness as H

PID = "C06"
RULE = ("cases = (Parallel of 2..4 branches or Map over 2..4 items, each branch = optional Wait + Task(s) carrying its index, failure assignment over the branches drawn from "
        "{none, one, several, all} x {task error reply, Task time-out, Fail state, runtime path error} with per-branch reply delays so that siblings are still in flight, "
        "fan-out handlers {none, Catch, Retry then success, Retry exhausted, Retry+Catch}, optionally wrapped in an outer Parallel with a slow sibling; schedule = generated choice list). "
        "Oracles: outcome in the set of reference outcomes over the admissible first-failing branches; fan-out started once per attempt and Catch target entered at most once; no request "
        "by a sibling of the failed attempt after the failure was processed; plus the lifecycle (C02), acknowledgement/drain (C03) and history (C09) monitors after every step. "
        "Non-trivial = a sibling event, reply or timer is delivered after the failure was processed (a failing branch exists and another branch was still running). Distinct by canonical JSON.")


def fn(n):
    return W.fn_arn(n)


def build(case):
    n, kind = case["n"], case["kind"]
    fails = case["fails"]           # list of None | "task" | "timeout" | "failstate" | "runtime" per branch
    delays = case["delays"]
    waits = case.get("waits") or [0] * n
    handlers = {}
    if case.get("retry"):
        handlers["Retry"] = [case["retry"]]
    if case.get("catch"):
        handlers["Catch"] = [dict(case["catch"], Next="Caught")]
    by_key = {}
    for i in range(n):
        seq = []
        if case.get("inner_catch") == i:
            seq = [{"err": "Inner", "msg": "caught inside the branch", "delay": 0}]
        elif fails[i] == "task":
            nf = case.get("fail_attempts", 99)
            seq = [{"err": "Err%d" % i, "msg": "boom", "delay": delays[i]}] * min(nf, 6)
            if nf < 99:
                seq.append({"ok": "$echo", "delay": delays[i]})
        elif fails[i] == "timeout":
            seq = [{"ok": "$echo", "delay": 50}]
        else:
            seq = [{"ok": "$echo", "delay": delays[i]}]
        by_key[json.dumps(i)] = seq
    oracle = {"item": {"seq": [{"ok": "$echo"}], "by_key": by_key}, "item2": {"seq": [{"ok": "$echo", "delay": 1}]}, "after": {"seq": [{"ok": "$echo"}]}, "slow": {"seq": [{"ok": "$echo", "delay": 7}]},
              "slow2": {"seq": [{"ok": "$echo", "delay": 9}]}}
    if case.get("outer_sibling_fails"):
        # the sibling of the (nested) fan-out is the first to fail: the fan-out is then a terminated Branch of the outer state, and whatever fails inside it later is no new failure
        oracle["slow"] = {"seq": [{"err": "SibErr", "msg": "sibling of the nested fan-out", "delay": 0}]}

    def branch_states(i, prefix, selector):
        """states of branch i; selector = Parameters for the first Task (how it learns its index)"""
        states, first = {}, prefix + "T"
        task = dict({"Type": "Task", "Resource": fn("item")}, **selector)
        if case.get("long_form"):
            task["Resource"] = "arn:aws:states:local::rpcmessage:invoke"
            task["Parameters"] = {"FunctionName": fn("item"), "Payload": selector.get("Parameters", {})}
        if fails[i] == "timeout":
            task["TimeoutSeconds"] = 2
        if fails[i] == "failstate":
            states[prefix + "T"] = {"Type": "Fail", "Error": "Err%d" % i, "Cause": "branch %d" % i}
        elif fails[i] == "runtime":
            states[prefix + "T"] = {"Type": "Pass", "InputPath": "$.does.not.exist", "End": True}
        elif case.get("inner_catch") == i:
            # this branch's Task fails but the failure is caught inside the branch; its (slow) successor is still running when a peer fails
            task["Catch"] = [{"ErrorEquals": ["States.ALL"], "Next": prefix + "U", "ResultPath": "$.inner"}]
            task["End"] = True
            states[prefix + "U"] = {"Type": "Task", "Resource": fn("item2"), "End": True}
            states[prefix + "T"] = task
        else:
            if case.get("two"):
                task["Next"] = prefix + "U"
                states[prefix + "U"] = {"Type": "Task", "Resource": fn("item2"), "End": True}
            elif case.get("wait_last") and not fails[i]:
                # the branch ends with a Wait: its timer is what completes the branch (a callback that does not pass through notify())
                task["Next"] = prefix + "Z"
                states[prefix + "Z"] = {"Type": "Wait", "Seconds": case["wait_last"], "End": True}
            else:
                task["End"] = True
            states[prefix + "T"] = task
        if waits[i]:
            states[prefix + "W"] = {"Type": "Wait", "Seconds": waits[i], "Next": prefix + "T"}
            first = prefix + "W"
        return first, states
    if kind == "parallel":
        branches = []
        for i in range(n):
            first, states = branch_states(i, "B%d" % i, {"Parameters": {"k": i}})
            branches.append({"StartAt": first, "States": states})
        fan = dict({"Type": "Parallel", "Branches": branches, "Next": "After", "ResultPath": "$.r"}, **handlers)
        input_value = {"x": 1, "two": [0, 1]}
    else:
        # a Map cannot give different iterations different state machines: failures are task behaviours keyed by the item
        for i in range(n):
            if fails[i] in ("failstate", "runtime"):
                raise ValueError("structural failures need a Parallel")
        tstates = {"IT": {"Type": "Task", "Resource": fn("item"), "End": True}}
        if any(f == "timeout" for f in fails):
            tstates["IT"]["TimeoutSeconds"] = 2
        fan = dict({"Type": "Map", "ItemsPath": "$.items", "ItemProcessor": {"StartAt": "IT", "States": tstates}, "Next": "After", "ResultPath": "$.r"}, **handlers)
        if case.get("mc") is not None:
            fan["MaxConcurrency"] = case["mc"]
        input_value = {"x": 1, "items": list(range(n)), "two": [0, 1]}
    # slow_catch: the Catch target is still running while the cancelled siblings' timers / replies / queued events come in (the execution is not over yet)
    states = {"After": {"Type": "Task", "Resource": fn("after"), "End": True}, "Caught": {"Type": "Task", "Resource": fn("slow" if case.get("slow_catch") else "after"), "Parameters": {"caught.$": "$"}, "End": True}}
    if case.get("outer"):
        states["F"] = dict(fan, End=True)
        states["F"].pop("Next", None)
        inner = {"StartAt": "F", "States": {"F": states.pop("F"), "Caught": dict(states.pop("Caught"))}}
        if case.get("deep"):
            # one more level: the fan-out is a Branch of a Parallel state that is itself a Branch of the outer state (nesting depth 3)
            second = {"StartAt": "MidP", "States": {"MidP": {"Type": "Pass", "End": True}}}
            if case.get("mid_all_fanouts"):
                # ... all of whose Branches are fan-outs themselves (a Map over two items whose Task takes a second)
                second = {"StartAt": "MidM", "States": {"MidM": {"Type": "Map", "ItemsPath": "$.two", "End": True, "ItemProcessor": {"StartAt": "MidT", "States": {"MidT": {"Type": "Task", "Resource": fn("item2"), "End": True}}}}}}
            inner = {"StartAt": "Mid", "States": {"Mid": {"Type": "Parallel", "End": True, "Branches": [inner, second]}}}
        outer = {"Type": "Parallel", "Next": "After", "Branches": [inner, {"StartAt": "Slow", "States": {"Slow": {"Type": "Task", "Resource": fn("slow"), "End": True}}}]}
        if case.get("outer_retry"):
            # the outermost state is retried once: everything below it, at any depth, belongs to the failed attempt and has to be cancelled and released
            outer["Retry"] = [{"ErrorEquals": ["States.ALL"], "IntervalSeconds": 1, "MaxAttempts": 1, "BackoffRate": 1.0}]
        if case.get("outer_catch"):
            outer["Catch"] = [{"ErrorEquals": ["States.ALL"], "Next": "OuterCaught", "ResultPath": "$.outer"}]
            # slow_outer_catch: the outer Catch target is still running when the (already failed) inner fan-out's stragglers fail, time out or reply
            states["OuterCaught"] = {"Type": "Task", "Resource": fn("slow2"), "End": True} if case.get("slow_outer_catch") else {"Type": "Pass", "End": True}
        states["O"] = outer
        start = "O"
    else:
        states["F"] = fan
        start = "F"
    return {"StartAt": start, "States": states}, input_value, oracle


def reference_outcomes(mcase):
    """Reference outcomes over every choice of 'the failing branch that is acted upon first', made independently for every fan-out state of the machine
    (nested fan-outs fail at several levels; the same choice is made in every attempt of a retried state)."""
    import itertools
    names = ["O", "F"] if mcase["c06"].get("outer") else ["F"]
    outs, seen = [], set()
    for digits in itertools.product(range(4), repeat=len(names)):
        policy = dict(zip(names, digits))
        holder = {}

        def choose(cands, policy=policy, holder=holder):
            return policy.get(getattr(holder["it"], "join_name", None), 0)
        it = ri.Interp(mcase["definition"], copy.deepcopy(mcase["oracle"]), t0=1_700_000_000.0, execution={"Name": "e1"}, sm_arn=S.SM_ARN, choose_failure=choose)
        holder["it"] = it
        it.any_failing_branch = True
        try:
            r = it.run(copy.deepcopy(mcase["input"]))
        except ri.Unspec:
            return None
        key = repr((r.status, r.output, r.error))
        if key not in seen:
            seen.add(key)
            outs.append(r)
        if not it.ambiguous_failure:
            break
    return outs


def probe(w, started):
    log = w.broker.oplog
    pub_step = {o["uid"]: o["step"] for o in log if o["kind"] == "publish"}
    reqs = [{"seq": o["seq"], "step": o["step"], "queue": o["queues"][0], "corr": o["correlation_id"], "payload": json.loads(o["body"]), "root": (o["ctx"][1] if o["ctx"] and o["ctx"][0] == "msg" else None)}
            for o in log if o["kind"] == "publish" and o.get("reply_to") and o["queues"] and str(o["owner"]).startswith("engine:")]
    # the attempt of the fan-out a request belongs to = the ID on top of the Branch stack of the event whose handling issued it
    attempt_of = {}
    for o in log:
        if o["kind"] == "publish" and o["queues"] and str(o["queues"][0]).startswith("asl_workflow_events"):
            try:
                br = json.loads(o["body"])["context"]["State"].get("Branch")
                attempt_of[o["uid"]] = br[-1].get("ID") if br else None
            except Exception:
                pass
    for r in reqs:
        r["root_published_step"] = pub_step.get(r["root"])
        r["attempt"] = attempt_of.get(r["root"])
    err_uids = {o["uid"] for o in log if o["kind"] == "publish" and o["queues"] and str(o["queues"][0]).startswith("asl_workflow_reply_to") and b"errorType" in o["body"]}
    replies = {}
    for o in log:
        if o["kind"] == "deliver" and str(o["queue"]).startswith("asl_workflow_reply_to") and o["uid"] in err_uids:
            replies.setdefault(o["correlation_id"], o["step"])       # the first delivery: a worker that answers twice sends a second (orphaned) reply later
    # messages whose delivery happened at a later virtual instant than their publication (the schedule let time pass while they were in flight) or never happened
    pub_t = {o["uid"]: o["t"] for o in log if o["kind"] == "publish" and o["queues"]}     # state events (a Task entered late has less of its TimeoutSeconds left), task requests and their replies
    late = sum(1 for o in log if o["kind"] == "deliver" and o["uid"] in pub_t and o["t"] - pub_t[o["uid"]] > 0.5)
    undelivered = len(set(pub_t) - {o["uid"] for o in log if o["kind"] == "deliver"})
    return {"requests": reqs, "reply_step": replies, "late_replies": late + undelivered}


def extra(case, sched, starts, res):
    fails = []
    info = res["info"]
    c6 = case["c06"]
    outs = reference_outcomes(case)
    arn = (info.get("started") or [None])[0]
    obs = (info.get("outcomes") or {}).get(arn)
    nfailing = sum(1 for f in c6["fails"] if f)
    if outs and not (c6.get("retry") and nfailing > 1):      # with a Retry and several failing branches the attempt numbers seen by the workers depend on the schedule
        problems = [H.compare_outcome(e, obs) for e in outs]
        # a schedule that lets virtual time pass while a request or reply is still in flight can make a Task with TimeoutSeconds time out before its (error) reply is handled:
        # States.Timeout of that Task is then a legitimate first failure which the reference (replies handled at once) does not enumerate
        timeout_race = ((info.get("probe") or {}).get("late_replies", 0) > 0 and '"TimeoutSeconds"' in json.dumps(case["definition"]))
        if all(problems) and not timeout_race:
            tag = "inband-error-data:" if any(H.has_inband_error(e) for e in outs) else ""
            fails.append((tag + "outcome-not-admissible:" + problems[0][0][0].split(":")[0], "observed %r; admissible reference outcomes: %r" % (obs, [repr(e)[:200] for e in outs])))
    hist = (info.get("histories") or {}).get(arn) or []
    if hist:
        started_n = sum(1 for e in hist if e["type"] in ("ParallelStateStarted", "MapStateStarted"))
        caught_n = sum(1 for e in hist if e["type"].endswith("StateEntered") and e["stateEnteredEventDetails"].get("name") == "Caught")
        if caught_n > 1:
            fails.append(("catch-target-entered-%d-times" % caught_n, "the Catch target was entered %d times" % caught_n))
        max_attempts = 1 + ((c6.get("retry") or {}).get("MaxAttempts", 3) if c6.get("retry") else 0)
        outer = (1 if c6.get("outer") else 0) + (1 if c6.get("outer") and c6.get("deep") else 0)
        if c6.get("mid_all_fanouts") or c6.get("outer_retry"):
            pass        # (the extra fan-out in the middle state and the retried outer state start fan-outs of their own: the simple count does not apply)
        elif started_n - outer > max_attempts:
            fails.append(("fanout-started-too-often", "the fan-out was started %d times, at most %d attempts are allowed" % (started_n - outer, max_attempts)))
    # nothing a sibling does after the fan-out has failed adds history: from a (Parallel|Map)StateFailed event up to the next (re-)entry of a fan-out state (a Retry) no state of a
    # Branch/Iteration is entered or exited, and (every Task outside the Branches succeeds in these machines, unless the outer sibling is the failing one) no task failure is logged
    if hist and case.get("type", "STANDARD") == "STANDARD":
        import re as _re
        inside = _re.compile(r"^(B\d+[TUWZ]|IT)$")
        window = None
        for k_, e in enumerate(hist):
            t_ = e["type"]
            if t_ in ("ParallelStateFailed", "MapStateFailed"):
                window = k_
            elif t_ in ("ParallelStateEntered", "MapStateEntered"):
                window = None
            elif window is not None:
                nm_ = ((e.get("stateEnteredEventDetails") or e.get("stateExitedEventDetails") or {}).get("name")) or ""
                if inside.match(nm_):
                    fails.append(("sibling-history-after-fanout-failure:" + t_, "%s of %r is event #%d, the fan-out failed at event #%d (%s)" % (t_, nm_, k_ + 1, window + 1, [x["type"] for x in hist[window:k_ + 1]][:8])))
                    break
                if t_ in ("LambdaFunctionFailed", "LambdaFunctionTimedOut", "TaskFailed", "TaskTimedOut") and not c6.get("outer_sibling_fails"):
                    fails.append(("sibling-history-after-fanout-failure:" + t_, "%s is event #%d, the fan-out failed at event #%d (%s)" % (t_, k_ + 1, window + 1, [x["type"] for x in hist[window:k_ + 1]][:8])))
                    break
    # no request by a sibling of the failed attempt after the failure (a task error reply) was processed
    pr = info.get("probe") or {}
    reqs = pr.get("requests", [])
    for r in reqs:
        p = r["payload"]
        if r["queue"] == "item" and isinstance(p, (dict, int)):
            idx = p.get("k") if isinstance(p, dict) else p
            if idx is not None and idx < len(c6["fails"]) and c6["fails"][idx] == "task":
                s_f = pr["reply_step"].get(r["corr"])
                if s_f is None:
                    continue
                for q in reqs:
                    # (same attempt: the error reply of a task of an earlier, already failed attempt is an orphan, not the failure of this attempt)
                    if q["queue"] in ("item", "item2") and q["step"] > s_f and q.get("root_published_step") is not None and q["root_published_step"] <= s_f and q["seq"] > r["seq"] \
                            and q.get("attempt") is not None and q.get("attempt") == r.get("attempt"):
                        fails.append(("sibling-request-after-failure", "branch %r failed (reply handled at step %d) but a sibling issued request %r at step %d from an event published at step %d" % (
                            idx, s_f, q["payload"], q["step"], q["root_published_step"])))
                        break
    return fails


def cases():
    from hypothesis import strategies as st

    @st.composite
    def strat(draw):
        kind = draw(st.sampled_from(["parallel", "parallel", "map"]))
        n = draw(st.integers(2, 4))
        pattern = draw(st.sampled_from(["none", "one", "one", "one", "several", "all"]))
        kinds = ["task", "task", "timeout"] + (["failstate", "runtime"] if kind == "parallel" else [])
        fails = [None] * n
        if pattern == "one":
            fails[draw(st.integers(0, n - 1))] = draw(st.sampled_from(kinds))
        elif pattern == "several":
            for i in draw(st.lists(st.integers(0, n - 1), min_size=2, max_size=n, unique=True)):
                fails[i] = draw(st.sampled_from(kinds))
        elif pattern == "all":
            fails = [draw(st.sampled_from(kinds)) for _ in range(n)]
        c = {"kind": kind, "n": n, "fails": fails, "delays": [draw(st.sampled_from([0, 0, 0.5, 1, 3])) for _ in range(n)],
             "waits": [draw(st.sampled_from([0, 0, 1, 2])) for _ in range(n)] if kind == "parallel" else None, "two": draw(st.booleans()) if kind == "parallel" else False,
             "outer": draw(st.integers(0, 2)) == 0, "outer_catch": draw(st.integers(0, 2)) > 0}
        if c["outer"] and c["outer_catch"]:
            c["slow_outer_catch"] = draw(st.integers(0, 2)) > 0
            c["outer_sibling_fails"] = draw(st.booleans())
        if kind == "map":
            c["mc"] = draw(st.sampled_from([None, 0, 1, 2]))
        c["long_form"] = kind == "parallel" and draw(st.integers(0, 3)) == 0
        c["dup_replies"] = 0.5 if draw(st.integers(0, 3)) == 0 else 0      # workers that answer twice (replies to cancelled siblings become repeated orphans)
        free = [i for i in range(n) if not fails[i]]
        if kind == "parallel" and free and any(fails) and draw(st.integers(0, 2)) == 0:
            c["inner_catch"] = draw(st.sampled_from(free))
        h = draw(st.sampled_from(["none", "none", "catch", "catch", "retry-ok", "retry-exhaust", "retry+catch"]))
        names = draw(st.sampled_from([["States.ALL"], ["States.ALL"], ["Err0", "Err1", "Err2", "Err3", "States.Timeout"]]))
        if h in ("catch", "retry+catch"):
            c["catch"] = {"ErrorEquals": names, "ResultPath": draw(st.sampled_from(["$.err", "$.err", "$", None]))}
            if c["catch"]["ResultPath"] == "$":
                c["catch"]["ResultPath"] = "$.err"      # keep the in-band Error convention (finding C01-F8) out of this check
            c["slow_catch"] = draw(st.booleans())
        if kind == "parallel" and draw(st.integers(0, 2)) == 0:
            c["wait_last"] = draw(st.sampled_from([1, 2, 4]))
        if c.get("slow_catch") and any(fails) and draw(st.booleans()):
            # the siblings are past their first Task (blocked in a later Wait / Task) when the failure comes, and the Catch target outlives them
            c["delays"] = [draw(st.sampled_from([1, 3])) if fails[i] else 0 for i in range(n)]
            if kind == "parallel" and draw(st.booleans()):
                c["wait_last"] = draw(st.sampled_from([2, 4]))
                c["two"] = False
        if h in ("retry-ok", "retry-exhaust", "retry+catch"):
            c["retry"] = {"ErrorEquals": names, "IntervalSeconds": draw(st.integers(1, 2)), "MaxAttempts": draw(st.integers(1, 2)), "BackoffRate": 1.0}
            if h == "retry-ok":
                c["fail_attempts"] = 1
        if draw(st.integers(0, 7)) == 0:
            # directed family: the enclosing state has already failed (its sibling Branch failed at once) and its slow Catch target is running when a Branch of the
            # nested fan-out fails by itself (time-out or a late error reply): that failure belongs to a terminated Branch and must change nothing
            c.update(outer=True, outer_catch=True, slow_outer_catch=True, outer_sibling_fails=True)
            c.pop("catch", None), c.pop("retry", None), c.pop("inner_catch", None), c.pop("slow_catch", None), c.pop("fail_attempts", None)
            if not any(fails):
                fails[draw(st.integers(0, n - 1))] = draw(st.sampled_from(["task", "timeout"]))
            c["fails"] = ["timeout" if f in ("failstate", "runtime") else f for f in fails]
            c["delays"] = [draw(st.sampled_from([1, 3])) if c["fails"][i] else c["delays"][i] for i in range(n)]
        if c.get("outer") and draw(st.integers(0, 2)) == 0:
            c["deep"] = True
            if draw(st.booleans()):
                c["mid_all_fanouts"] = True
                if c.get("outer_sibling_fails") and draw(st.booleans()):
                    c["outer_retry"] = True
        definition, input_value, oracle = build(c)
        sched = draw(st.lists(st.integers(0, 6), max_size=50))
        mcase = {"definition": definition, "input": input_value, "oracle": oracle, "type": draw(st.sampled_from(["STANDARD", "STANDARD", "EXPRESS"])), "c06": c,
                 "features": ["Parallel" if kind == "parallel" else "Map"]}
        return mcase, sched, [{"mode": "api", "input": input_value, "name": "e1"}]
    return strat()


def nontrivial(case, sched, starts, info):
    f = case["c06"]["fails"]
    return any(f) and not all(f) or (any(f) and case["c06"].get("outer"))


def shard(k, seed, tier, examples=60):
    import hypothesis, traceback
    from hypothesis import given, settings, HealthCheck, Phase
    from ..runner import Campaign
    spec = mon.SPECS[PID]
    camp = Campaign(PID, rule=RULE, tier=tier, seed=seed)

    @hypothesis.seed(seed)
    @settings(max_examples=examples, deadline=None, database=None, suppress_health_check=list(HealthCheck), phases=[Phase.generate])
    @given(cases())
    def run(t):
        case, sched, starts = t
        c = {"definition": case["definition"], "input": case["input"], "oracle": case["oracle"], "type": case["type"], "c06": case["c06"], "schedule": sched, "starts": starts}
        try:
            fails, res = mon.evaluate(spec, case, sched, starts, seed=seed, extra_kwargs={"dup_replies": case["c06"].get("dup_replies", 0)})
        except Exception as e:
            camp.harness_error("case crashed the harness: %r %s %s" % (e, traceback.format_exc()[-700:], json.dumps(c)[:600]))
            return
        c6 = case["c06"]
        nfail = sum(1 for f in c6["fails"] if f)
        camp.case(c, nontrivial=nontrivial(case, sched, starts, res["info"]),
                  classes=["kind-" + c6["kind"], "failing-%s" % ("none" if nfail == 0 else "one" if nfail == 1 else "all" if nfail == c6["n"] else "several"),
                           "handlers-" + ("+".join(h for h in ("retry", "catch") if c6.get(h)) or "none"), "outer" if c6.get("outer") else "flat", "type-" + case["type"],] + (["depth-3"] if c6.get("deep") else []) + (["depth-3-only-fanouts-in-the-middle"] if c6.get("mid_all_fanouts") else []) + (["outermost-state-retried"] if c6.get("outer_retry") else []) + [
                           "schedule-" + ("deviating" if any(sched) else "canonical")] + (["workers-reply-twice"] if c6.get("dup_replies") else []) + ["failkind-" + f for f in set(x for x in c6["fails"] if x)],
                  sample=dict(c, outcomes=res["info"].get("outcomes"), trace=res["info"].get("trace", [])[:20]))
        for b, d in tag(fails, c6):
            camp.fail(b, c, d)
    run()
    return camp.export()


def tag(fails, c6):
    """Report flat fan-outs and fan-outs nested in an outer Parallel as separate classes."""
    # 'the engine holds no per-execution state once every execution is terminal' is C03's clause (and has its recorded finding there, C03-F36: a MaxConcurrency block that was never
    # launched keeps the join state until the back stop); C06 asserts what its own statement lists: history, notifications, outcome, the retried attempt, unacknowledged messages
    fails = [(b, d) for b, d in fails if not b.startswith("drain:branch_metadata")]
    handled_failure = any(c6["fails"]) and (c6.get("retry") or c6.get("catch"))
    suffix = (":nested-handled-failure" if handled_failure else ":nested") if c6.get("outer") else ":flat"
    return [(b + suffix, d) for b, d in fails]


def replay_case(case):
    spec = mon.SPECS[PID]
    c = {k: case[k] for k in ("definition", "input", "oracle", "type", "c06")}
    c["features"] = []
    fails, _ = mon.evaluate(spec, c, case.get("schedule", []), case.get("starts"), extra_kwargs={"dup_replies": case["c06"].get("dup_replies", 0)})
    return tag(fails, case["c06"])


mon.SPECS[PID] = mon.Spec(PID, ("lifecycle", "ack", "history", "exceptions"), RULE, [], extra=extra, run_kwargs={"probe": probe, "tick": 0.0})


def main(tier, seed, replay=None):
    from ..runner import Campaign, run_shards
    camp = Campaign(PID, rule=RULE, tier=tier, seed=seed)
    camp.assumptions = [
        "any failing branch may be the one acted upon (a reply can be delivered late), so the outcome is compared with the set of reference outcomes over the failing branches",
        "catchers use ResultPath $.err / null so that the in-band Error convention (finding C01-F8) stays out of this check",
        "the sibling-progress clause is evaluated for failures that are task error replies (the step in which the reply was handled is observable in the broker log)",
    ]
    if replay:
        with open(replay) as fp:
            rec = json.load(fp)
        for b, d in replay_case(rec["case"]):
            camp.fail(b, rec["case"], d)
        camp.case(rec["case"], True)
        camp.min_nontrivial = 0
        camp.write_evidence = False
        return camp.finish()
    camp.run_witnesses(replay_case)
    # directed: the sibling of the failing Branch is a Task that runs a child execution synchronously; the Parallel state's failure is caught, and the child ends while the
    # Catcher's (slow) Next state is still running: its result belongs to a terminated Branch and adds nothing
    spec = mon.SPECS[PID]
    for form in ("startExecution.sync", "startExecution.sync:2"):
        for sched_ in ([], [1, 0, 2, 0, 1], [2, 2, 1, 1, 0, 0]):
            kid = {"StartAt": "K1", "States": {"K1": {"Type": "Task", "Resource": fn("slow2"), "End": True}}}      # (answers after 9 s: the Catcher's Next state takes 7 s... see below)
            definition = {"StartAt": "F", "States": {
                "F": {"Type": "Parallel", "Next": "After", "ResultPath": "$.r", "Catch": [{"ErrorEquals": ["States.ALL"], "ResultPath": "$.err", "Next": "Caught"}], "Branches": [
                    {"StartAt": "B0T", "States": {"B0T": {"Type": "Task", "Resource": fn("item"), "Parameters": {"k": 0}, "End": True}}},
                    {"StartAt": "B1T", "States": {"B1T": {"Type": "Task", "Resource": "arn:aws:states:::states:" + form, "Parameters": {"StateMachineArn": "arn:aws:states:local:0123456789:stateMachine:kid", "Input": {"v": 1}}, "End": True}}}]},
                "After": {"Type": "Task", "Resource": fn("after"), "End": True},
                "Caught": {"Type": "Task", "Resource": fn("slow3"), "Parameters": {"caught.$": "$"}, "End": True}}}
            oracle = {"item": {"seq": [{"ok": "$echo"}], "by_key": {json.dumps(0): [{"err": "Err0", "msg": "boom", "delay": 1}]}}, "after": {"seq": [{"ok": "$echo"}]},
                      "slow2": {"seq": [{"ok": "$echo", "delay": 4}]}, "slow3": {"seq": [{"ok": "$echo", "delay": 9}]}}
            c6 = {"kind": "parallel", "n": 2, "fails": ["task", None], "delays": [1, 0], "waits": [0, 0], "two": False, "outer": False, "catch": {"ErrorEquals": ["States.ALL"], "ResultPath": "$.err"},
                  "slow_catch": True, "directed": "sync-child-sibling"}
            mcase = {"definition": definition, "input": {"x": 1}, "oracle": oracle, "type": "STANDARD", "c06": c6, "features": ["Parallel"], "extra_machines": {"kid": kid}}
            starts = [{"mode": "api", "input": {"x": 1}, "name": "e1"}]
            c = dict(mcase, schedule=sched_, starts=starts)
            try:
                fails_, res_ = mon.evaluate(spec, mcase, sched_, starts, seed=seed)
            except Exception as e:
                camp.harness_error("directed sync-child case crashed the harness: %r" % (e,))
                continue
            camp.case(c, nontrivial=True, classes=["directed", "sibling-is-a-synchronous-child", "form-" + form.split(".")[-1]])
            for b, d in tag(fails_, c6):
                camp.fail(b, c, d)
    if tier == "thorough":
        run_shards(camp, __name__, "shard", 16, examples=1500)
    else:
        run_shards(camp, __name__, "shard", 8, examples=110)
    return camp.finish()
