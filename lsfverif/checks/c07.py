"""
C07 - Retry and Catch follow the States Language error-handling policy.

Structured machines: a retried state (Task / Parallel / Map) with generated
retrier and catcher lists, a finite sequence of task outcomes (error names incl.
genuinely produced reserved ones, then success or not), followed by a second
failing state that probes for leaking retry counters.  Differential against the
reference policy model on the virtual clock: number of invocations, the instant
of every request, final status/output/error.
"""
import copy, json, traceback

from .. import env
from ..runner import Campaign, HarnessError, run_shards
from .. import world as W
from .. import harness as H
from ..ref import interp as ri

PID = "C07"
RULE = ("cases = (retried state kind Task|Parallel|Map, 0..3 retriers with ErrorEquals over a 5-name pool / States.ALL last, IntervalSeconds 1..5, MaxAttempts 0..3, "
        "BackoffRate in {1,1.5,2,3}; 0..3 catchers with ResultPath absent/$/$.err/$.a.b/null; outcome sequence of up to 5 failures (custom names, States.Timeout by a slow "
        "worker, States.ResultPathMatchFailure / States.IntrinsicFailure / States.Runtime produced by the state's own filters) then success or not; a following Task that fails "
        "once with its own Retrier). Oracle: reference policy on the virtual clock under the zero-latency canonical schedule: same number of requests, request k+1 issued exactly "
        "(and never before) failure_k + Interval*Backoff^k, first matching retrier/catcher decides, Error Output placed into the state's raw input, unrecoverable errors bypass "
        "both, counters reset on leaving the state. Non-trivial = at least one retry taken or a catcher other than the first selected. Distinct by canonical JSON.")

POOL = ["ErrA", "ErrB", "ErrC", "Custom.Error", "States.TaskFailed"]
TOL = 1e-3


def fn(n):
    return W.fn_arn(n)


def build(case):
    kind = case["kind"]
    handlers = {}
    if case["retry"]:
        handlers["Retry"] = case["retry"]
    if case["catch"]:
        handlers["Catch"] = [dict(c, Next="H%d" % i) for i, c in enumerate(case["catch"])]
    task = {"Type": "Task", "Resource": fn("f1")}
    if case.get("timeout"):
        task["TimeoutSeconds"] = case["timeout"]
    if case.get("self_error") == "resultpath":
        task["ResultPath"] = "$.n.deep"
    elif case.get("self_error") == "intrinsic":
        task["ResultSelector"] = {"x.$": "States.MathAdd('a', 1)"}
    elif case.get("self_error") == "runtime":
        task["OutputPath"] = "$.missing"
    if kind == "Task":
        s1 = dict(task, Next="S2", **handlers)
    elif kind == "Parallel":
        s1 = dict({"Type": "Parallel", "Next": "S2", "ResultPath": "$.r", "Branches": [
            {"StartAt": "B1", "States": {"B1": dict(task, End=True)}},
            {"StartAt": "B2", "States": {"B2": {"Type": "Pass", "Result": "side", "End": True}}}]}, **handlers)
    else:
        s1 = dict({"Type": "Map", "Next": "S2", "ItemsPath": "$.items", "ResultPath": "$.r", "MaxConcurrency": case.get("mc", 0),
                   "ItemProcessor": {"StartAt": "B1", "States": {"B1": dict(task, End=True)}}}, **handlers)
    states = {"S1": s1,
              "S2": {"Type": "Task", "Resource": fn("f2"), "ResultPath": "$.second", "End": True,
                     "Retry": [{"ErrorEquals": ["Second.Error"], "IntervalSeconds": 1, "MaxAttempts": 1, "BackoffRate": 1.0}]}}
    for i, c in enumerate(case["catch"]):
        states["H%d" % i] = {"Type": "Pass", "Parameters": {"handler": i, "data.$": "$"}, "End": True}
    definition = {"StartAt": "S1", "States": states}
    if case.get("exec_timeout"):
        # the machine's own TimeoutSeconds expires while the (slow) task is running: an execution time-out, which no Retrier or Catcher may intercept
        definition["TimeoutSeconds"] = case["exec_timeout"]
    seq = []
    for o in case["outcomes"]:
        if o == "ok":
            seq.append({"ok": "$echo"})
        elif o == "slow":
            seq.append({"ok": "$echo", "delay": (case.get("timeout") or 2) + 3})
        else:
            seq.append({"err": o, "msg": "boom"})
    if kind == "Parallel" and case.get("inner_retry"):
        # the failing Branch's Task is first retried by a Retrier of its own (and then fails with an error that Retrier does not name)
        s1["Branches"][0]["States"]["B1"]["Retry"] = [{"ErrorEquals": ["Inner.Retry"], "IntervalSeconds": 1, "MaxAttempts": 3, "BackoffRate": 1.0}]
        oracle = {"f1": {"seq": [{"err": "Inner.Retry", "msg": "again"}] * case["inner_retry"] + seq}}
    elif kind == "Map" and case.get("inner_retry"):
        # the Task inside the Iterator has a Retrier of its own, used (successfully) by item 0 in an earlier MaxConcurrency block than the failing item 1:
        # its retry count belongs to that Task and must not count against the Map state's own Retriers
        s1["ItemProcessor"]["States"]["B1"]["Retry"] = [{"ErrorEquals": ["Inner.Retry"], "IntervalSeconds": 1, "MaxAttempts": 3, "BackoffRate": 1.0}]
        oracle = {"f1": {"seq": [{"ok": "$echo"}], "by_key": {json.dumps(1): seq, json.dumps(0): [{"err": "Inner.Retry", "msg": "again"}] * case["inner_retry"] + [{"ok": "$echo"}]}}}
    elif kind == "Map":
        oracle = {"f1": {"seq": [{"ok": "$echo"}], "by_key": {json.dumps(1): seq}}}
    else:
        oracle = {"f1": {"seq": seq}}
    oracle["f2"] = {"seq": [{"err": "Second.Error", "msg": "x"}, {"ok": "$echo"}]}
    input_value = {"n": 5, "a": {"b": 1}, "items": [0, 1, 2]}
    return definition, input_value, oracle


def run_case(case):
    definition, input_value, oracle = build(case)
    it = ri.Interp(definition, copy.deepcopy(oracle), t0=1_700_000_000.0, execution={"Name": "e1"}, sm_arn=W.sm_arn("m1"))
    try:
        exp = it.run(copy.deepcopy(input_value))
    except ri.Unspec as e:
        return [], {"skip": str(e)}
    if exp.status == "FAILED" and exp.error and "States.ExecutionTimeout" in exp.error:
        exp.error = ("States.Timeout",)       # the reference's internal name for the execution time-out; it is reported as States.Timeout
    info = {"multi_retrier": it.multi_retrier, "expected": repr(exp), "retries": sum(1 for ev in _flat(exp.trace) if ev[0] == "retry"),
            "caught": [ev for ev in _flat(exp.trace) if ev[0] == "caught"]}
    w = W.World(seed=7, tick=0.0)
    fails = []
    try:
        w.add_engine("A")
        H.install_workers(w, definition, oracle)
        w.create_state_machine("m1", definition, type_=case.get("type", "STANDARD"))
        st, r = w.start_execution(W.sm_arn("m1"), input_value, name="e1")
        arn = r["executionArn"]
        t0 = w.clock.now
        w.run()
        term = w.terminal(arn)
        obs = H.detail_outcome(term)
        info["observed"] = obs
        fails += H.compare_outcome(exp, obs)
        for f in ("f1", "f2"):
            if f == "f1" and case["kind"] == "Map" and case.get("self_error"):
                continue      # every iteration fails by itself: which siblings were already invoked when the first failure is processed is not prescribed
            got = [r_["t"] - t0 for r_ in w.workers[f].requests] if f in w.workers else []
            want = [r_["t"] - 1_700_000_000.0 for r_ in exp.requests if r_["fn"] == f]
            if case["kind"] == "Map" and f == "f1":
                # only the failing item's attempts are timed; siblings are re-run with it
                got = [r_["t"] - t0 for r_ in w.workers[f].requests if r_["payload"] == 1]
                want = [r_["t"] - 1_700_000_000.0 for r_ in exp.requests if r_["fn"] == f and r_["payload"] == 1]
            if len(got) != len(want):
                fails.append(("invocation-count:%s" % f, "%s invoked %d times at %r, the policy prescribes %d invocations at %r" % (f, len(got), [round(x, 3) for x in got], len(want), want)))
            else:
                for k, (g, x) in enumerate(zip(got, want)):
                    if g < x - TOL:
                        fails.append(("retry-too-early:%s" % f, "attempt %d of %s issued at +%.3f s, not before +%.3f s allowed (all: %r vs %r)" % (k + 1, f, g, x, got, want)))
                        break
                    if g > x + TOL:
                        fails.append(("retry-too-late:%s" % f, "attempt %d of %s issued at +%.3f s, expected +%.3f s (all: %r vs %r)" % (k + 1, f, g, x, got, want)))
                        break
        if w.engine_exceptions:
            fails.append(("engine-callback-exception:%s" % w.engine_exceptions[0]["type"], repr(w.engine_exceptions[0])))
    finally:
        w.close()
    if it.multi_retrier:
        fails = [("multi-retrier:" + b.split(":")[0], d) for b, d in fails]
    elif H.has_inband_error(exp):
        fails = [("inband-error-data:" + b.split(":")[0], d) for b, d in fails]
    return fails, info


def _flat(trace):
    for ev in trace:
        if ev[0] == "fanout":
            for bt in ev[2]:
                for x in _flat(bt):
                    yield x
        else:
            yield ev


def shard(k, seed, tier, examples=80):
    import hypothesis
    from hypothesis import given, settings, HealthCheck, Phase, strategies as st
    camp = Campaign(PID, rule=RULE, tier=tier, seed=seed)

    @st.composite
    def cases(draw):
        kind = draw(st.sampled_from(["Task", "Task", "Parallel", "Map"]))
        nret = draw(st.integers(0, 3))
        retry = []
        for i in range(nret):
            if i == nret - 1 and draw(st.integers(0, 3)) == 0:
                ee = ["States.ALL"]
            else:
                ee = draw(st.lists(st.sampled_from(POOL[:4] + ["States.Timeout", "States.ResultPathMatchFailure", "States.IntrinsicFailure", "States.Runtime"]), min_size=1, max_size=2, unique=True))
            r = {"ErrorEquals": ee}
            if draw(st.integers(0, 4)) > 0:
                r["IntervalSeconds"] = draw(st.integers(1, 5))
            if draw(st.integers(0, 4)) > 0:
                r["MaxAttempts"] = draw(st.integers(0, 3))
            if draw(st.integers(0, 4)) > 0:
                r["BackoffRate"] = draw(st.sampled_from([1.0, 1.5, 2.0, 3.0]))
            retry.append(r)
        ncat = draw(st.integers(0, 3))
        catch = []
        for i in range(ncat):
            if i == ncat - 1 and draw(st.integers(0, 2)) == 0:
                ee = ["States.ALL"]
            else:
                ee = draw(st.lists(st.sampled_from(POOL[:4] + ["States.Timeout", "States.ResultPathMatchFailure", "States.IntrinsicFailure", "States.Runtime"]), min_size=1, max_size=2, unique=True))
            c = {"ErrorEquals": ee}
            rp_ = draw(st.sampled_from(["absent", "$", "$.err", "$.a.b", None, "$.a.c.d"]))
            if rp_ != "absent":
                c["ResultPath"] = rp_
            catch.append(c)
        single = draw(st.integers(0, 2)) > 0       # most sequences stay within one error name (one retrier visited)
        names = POOL[:4]
        first = draw(st.sampled_from(names + ["slow"]))
        nfail = draw(st.integers(0, 5))
        outcomes = [first if single else draw(st.sampled_from(names + ["slow"])) for _ in range(nfail)]
        ends_ok = draw(st.booleans())
        outcomes.append("ok" if ends_ok else (outcomes[-1] if outcomes else "ErrA"))
        case = {"kind": kind, "retry": retry, "catch": catch, "outcomes": outcomes, "type": draw(st.sampled_from(["STANDARD", "STANDARD", "EXPRESS"]))}
        if "slow" in outcomes:
            case["timeout"] = draw(st.integers(1, 3))
        if draw(st.integers(0, 7)) == 0:
            case["self_error"] = draw(st.sampled_from(["resultpath", "intrinsic", "runtime"]))
            case["outcomes"] = ["ok"]
        if kind == "Parallel" and "self_error" not in case and draw(st.integers(0, 2)) == 0:
            case["inner_retry"] = draw(st.integers(1, 2))
        if kind == "Map":
            case["mc"] = draw(st.sampled_from([0, 0, 1, 2]))
            if case["mc"] == 1 and "self_error" not in case and draw(st.booleans()):
                case["inner_retry"] = draw(st.integers(1, 2))
        if "self_error" not in case and draw(st.integers(0, 7)) == 0:
            # execution time-out strictly before any task time-out: handlers on States.Timeout / States.ALL must not see it
            case["exec_timeout"] = draw(st.integers(1, 3))
            case.pop("inner_retry", None)       # (its 1 s retry interval could end exactly at the execution's deadline: a tie)
            case["outcomes"] = ["slow"] + case["outcomes"]
            case["timeout"] = draw(st.sampled_from([None, case["exec_timeout"] + 2]))
            if case["timeout"] is None:
                del case["timeout"]
        return case

    @hypothesis.seed(seed)
    @settings(max_examples=examples, deadline=None, database=None, suppress_health_check=list(HealthCheck), phases=[Phase.generate])
    @given(cases())
    def run(case):
        try:
            fails, info = run_case(case)
        except Exception as e:
            camp.harness_error("case crashed the harness: %r %s %s" % (e, traceback.format_exc()[-700:], json.dumps(case)))
            return
        if "skip" in info:
            camp.count("skipped-unspecified")
            return
        nt = info["retries"] >= 1 or any(True for c in info["caught"]) and len(case["catch"]) > 1
        camp.case(case, nontrivial=bool(nt), classes=["kind-" + case["kind"], "retries-%d" % min(info["retries"], 4), "caught" if info["caught"] else "not-caught",
                                                      "multi-retrier" if info["multi_retrier"] else "single-retrier", "type-" + case["type"]] + (["self-error-" + case["self_error"]] if case.get("self_error") else []) + (["execution-timeout-during-task"] if case.get("exec_timeout") else []) + (["inner-task-retried-in-earlier-block"] if case.get("inner_retry") else []),
                  sample=dict(case, expected=info["expected"], observed=info.get("observed")))
        for b, d in fails:
            camp.fail(b, case, d)
    run()
    return camp.export()


def replay_case(case):
    return run_case(case)[0]


def calibrate():
    """The specification's own 'complex retry scenario': errors ErrorA, ErrorB, ErrorC, ErrorB against retriers
    [ErrorA,ErrorB: Interval 1, MaxAttempts 2, Backoff 2], [ErrorC: Interval 5], catch-all -> waits 1 s, 2 s, 5 s, then the catcher."""
    definition = {"StartAt": "X", "States": {"X": {"Type": "Task", "Resource": fn("f1"), "Retry": [
        {"ErrorEquals": ["ErrorA", "ErrorB"], "IntervalSeconds": 1, "BackoffRate": 2.0, "MaxAttempts": 2}, {"ErrorEquals": ["ErrorC"], "IntervalSeconds": 5}],
        "Catch": [{"ErrorEquals": ["States.ALL"], "Next": "Z"}], "End": True}, "Z": {"Type": "Pass", "Result": "caught", "End": True}}}
    oracle = {"f1": {"seq": [{"err": "ErrorA"}, {"err": "ErrorB"}, {"err": "ErrorC"}, {"err": "ErrorB"}]}}
    it = ri.Interp(definition, oracle, t0=0.0)
    res = it.run({})
    times = [r["t"] for r in res.requests]
    if times != [0.0, 1.0, 3.0, 8.0] or res.status != "SUCCEEDED" or res.output != "caught":
        raise HarnessError("reference retry policy does not reproduce the specification's complex retry scenario: %r %r" % (times, res))


def main(tier, seed, replay=None):
    camp = Campaign(PID, rule=RULE, tier=tier, seed=seed)
    camp.assumptions = [
        "zero-latency canonical schedule, virtual clock without ticks: request instants are compared with 1 ms tolerance",
        "States.TaskFailed appears in ErrorEquals only as an ordinary name (the engine treats it as a wildcard; the statement does not say either way, so it is not generated)",
        "sequences in which two different retriers of one state are visited are reported under the 'multi-retrier' class (finding C07-F15) so that the single-retrier space keeps gating",
        "Cause texts are not compared",
    ]
    try:
        calibrate()
    except HarnessError as e:
        camp.harness_error(e)
        return camp.finish()
    if replay:
        with open(replay) as fp:
            rec = json.load(fp)
        for b, d in replay_case(rec["case"]):
            camp.fail(b, rec["case"], d)
        camp.case(rec["case"], True)
        camp.min_nontrivial = 0
        camp.write_evidence = False
        return camp.finish()
    camp.run_witnesses(replay_case)
    if tier == "thorough":
        run_shards(camp, __name__, "shard", 16, examples=2000)
    else:
        run_shards(camp, __name__, "shard", 8, examples=80)
    return camp.finish()
