"""
C04 - in-progress executions survive an engine crash and restart.

For every generated (machine, input, task behaviour, schedule) a baseline run without a
crash is made first.  Then the same case is run again with injected faults:

between  the engine process is killed between two handler invocations at scheduler step k
         (all unacknowledged deliveries go back to their queues, every in-memory table and
         every timer of the process is gone), stays down for a drawn time (worker replies
         and timers of the rest of the world keep running), and is restarted with the same
         instance id.  Oracle: same terminal status / output / error as the baseline,
         exactly one terminal notification, no task correlation id requested twice.
op       the process is killed inside a handler, right after its n-th broker operation
         (publish / ack / timer ...).  Oracle: no started execution is lost - every
         execution that was announced reaches exactly one terminal status - and the
         engine is quiescent afterwards.
Both with one or two crashes.  Quick draws crash points; thorough additionally
enumerates every between-handler step and every in-handler operation of small cases.
"""
import copy, json, traceback

from .. import env
from ..runner import Campaign, HarnessError, run_shards
from .. import sched as S

PID = "C04"
RULE = ("case = (generated machine, input, task behaviour, delivery schedule, list of crash points). A crash point is 'between' (kill the engine between two handler invocations at "
        "scheduler step k, keep it down for d seconds, restart with the same instance id) or 'op' (kill it right after its n-th broker operation, inside a handler). "
        "Non-trivial = the crash happens while the execution is in progress (after the start event was consumed and before the terminal notification). Distinct by canonical JSON.")
CFG = dict(S.CFG_SCHED, max_states=6)
CFG_SEQ = dict(S.CFG_SCHED, max_states=6, max_depth=0, fanout_heavy=False)     # machines without Map/Parallel (apart from the occasional structured one)
DOWN = [0, 0, 0.25, 1.5, 5]
TTL = 900       # execution_ttl (s): the back stop that ends an execution whose task request was never sent


def state_type(defn, name):
    """Type of the state called `name` at any depth of the definition (state names are unique across the machine)."""
    for nm, st_ in (defn.get("States") or {}).items():
        if not isinstance(st_, dict):
            continue
        if nm == name:
            return st_.get("Type")
        for sub in list(st_.get("Branches") or []) + [st_.get(k) for k in ("Iterator", "ItemProcessor") if isinstance(st_.get(k), dict)]:
            t = state_type(sub, name)
            if t:
                return t
    return None


def f62_prone(defn):
    """
    Does the machine have a fan-out whose join state cannot be rebuilt from redelivered events (recorded finding F62)?  The result of a finished Branch survives a
    restart when the event held for it is re-executed on redelivery (a Pass / Wait / Choice / Succeed terminal state recomputes its output from the event); it does not
    when that event is a Task's (a redelivered Task is not invoked again and its reply is gone), when the Branch ends in a nested Map/Parallel (its events were
    acknowledged at the inner join), or when a Map is re-entered per MaxConcurrency block (the re-entry event cannot rebuild earlier blocks).
    """
    def terminal_types(m):
        out = []
        for st_ in (m.get("States") or {}).values():
            if isinstance(st_, dict) and (st_.get("End") or st_.get("Type") in ("Succeed", "Fail")):
                out.append(st_.get("Type"))
        return out

    def walk(m):
        for st_ in (m.get("States") or {}).values():
            if not isinstance(st_, dict):
                continue
            subs = list(st_.get("Branches") or []) + [st_.get(k) for k in ("Iterator", "ItemProcessor") if isinstance(st_.get(k), dict)]
            if st_.get("Type") == "Map" and st_.get("MaxConcurrency"):
                return True
            for sub in subs:
                if any(t in ("Task", "Map", "Parallel") for t in terminal_types(sub)):
                    return True
                if any(isinstance(x, dict) and (x.get("Retry") or x.get("Catch")) for x in (sub.get("States") or {}).values()):
                    return True       # handled failures inside a Branch: the held event may be a Task's
                if walk(sub):
                    return True
            if subs and (st_.get("Retry") or st_.get("Catch")):
                return True
        return False
    return walk(defn)


def settled(arn):
    def until(w):
        b = w.broker
        if b.pending_returns or w.pushed or b.deliverable() or b.due_timers():
            return False
        timers = [t for t in b.live_timers() if not w.is_heartbeat(t)]
        if not timers:
            return True
        # once the execution has ended only near timers (orphan retention, clean-up) are waited for; before that every timer may still be the one that ends it
        if w.terminal(arn) is not None or not w.notifications_for(arn):
            return not [t for t in timers if t.deadline - w.clock.now <= 30]
        return False
    return until


def run(case, schedule, crashes=(), seed=0, store="file"):
    """-> dict(outcome, terminals, requests, steps, ops, in_progress, exceptions, quiescent, unacked, ready)"""
    from .. import world as W
    from .. import harness as H
    w = W.World(seed=seed, tick=1e-6, orphan_retention_ms=case.get("orphan_retention_ms", 600000), execution_ttl=TTL, store=store)
    out = {}
    try:
        eng = w.add_engine("A")
        H.install_workers(w, case["definition"], case.get("oracle") or {}, dup_replies=case.get("dup_replies", 0))
        for nm_, d_ in (case.get("extra_machines") or {}).items():
            H.install_workers(w, d_, case.get("oracle") or {}, dup_replies=case.get("dup_replies", 0))
            st, r = w.create_state_machine(nm_, d_)
            if st != 200:
                raise HarnessError("CreateStateMachine refused the machine %s: %r" % (nm_, r))
        st, r = w.create_state_machine("m1", case["definition"], type_=case.get("type", "STANDARD"))
        if st != 200:
            raise HarnessError("CreateStateMachine refused a generated machine: %r" % (r,))
        ops0 = w.broker.opcount.get("engine:A", 0)
        st, r = w.start_execution(S.SM_ARN, case["input"], name="e1")
        if st != 200:
            raise HarnessError("StartExecution refused: %r" % (r,))
        arn = r["executionArn"]
        between = sorted([c for c in crashes if c["mode"] == "between"], key=lambda c: c["step"])
        ops = sorted([c for c in crashes if c["mode"] == "op"], key=lambda c: c["n"])
        in_progress = []
        i = 0
        until = settled(arn)
        max_steps = 8000

        def arm():
            if ops:
                w.broker.crash_at_op = ("engine:A", ops0 + ops[0]["n"])

        def restart(c):
            in_progress.append(bool(w.notifications_for(arn)) and w.terminal(arn) is None)
            if c.get("down"):
                w.advance(c["down"])
            w.restart_engine("A")
        arm()
        while True:
            # a zero-delay delegate of the engine that is due belongs to the handling of the event that armed it: the "between" point is after it
            engine_due = [t for t in w.broker.due_timers() if t.owner is not None and getattr(t.owner, "owner", None) == "engine:A" and not w.is_heartbeat(t)]
            while between and between[0]["step"] <= w.steps and w.engine("A").alive and not engine_due:
                c = between.pop(0)
                w.crash_engine("A")
                restart(c)
            if not w.busy() or until(w) or w.steps >= max_steps:
                break
            ch = schedule[i] if i < len(schedule) else 0
            i += 1
            label = w.step(ch)
            if label is None:
                break
            if label.endswith("!crash"):
                c = ops.pop(0)
                restart(c)
                arm()
        w.broker.crash_at_op = None
        # deliveries still unacknowledged at the end: is it a redelivered Task-state event whose request was never published (recorded finding F61)?
        sent = {str(o.get("correlation_id")) for o in w.broker.oplog if o["kind"] == "publish" and o.get("reply_to")}
        left = []
        for conn in w.broker.connections:
            if conn.owner != "engine:A":
                continue
            for ch in conn.channels:
                for q, msg, consumer in ch.unacked.values():
                    mid = str(getattr(msg.props, "message_id", None))
                    is_task = False
                    try:
                        ev = json.loads(msg.body)
                        is_task = state_type(case["definition"], ev["context"]["State"]["Name"]) == "Task"
                    except Exception:
                        pass
                    left.append({"uid": msg.uid, "queue": q.name, "redelivered": bool(msg.redelivered), "task_event": is_task,
                                 "request_sent": any(c == mid or c.startswith(mid + ".") for c in sent)})
        out["leftover"] = left
        # timers of the engine still armed at the end (heartbeat apart): label or callback name, seconds until due
        out["timers_left"] = [((t.label or getattr(t.callback, "__qualname__", "?")), round(t.deadline - w.clock.now, 3)) for t in w.broker.live_timers()
                              if not w.is_heartbeat(t) and t.owner is not None]
        ends = [n for n in w.notifications_for(arn) if n["body"]["detail"]["status"] != "RUNNING"]
        out.update(outcome=H.detail_outcome(w.terminal(arn)), terminals=len(ends), announced=bool(w.notifications_for(arn)),
                   requests={fn: [(q["correlation_id"], q["redelivered"]) for q in wk.requests] for fn, wk in w.workers.items()},
                   steps=w.steps, ops=w.broker.opcount.get("engine:A", 0) - ops0, in_progress=in_progress, exceptions=list(w.engine_exceptions),
                   quiescent=w.steps < max_steps, unacked=w.broker.total_unacked("engine:A"),
                   ready={q: len(x.messages) for q, x in w.broker.queues.items() if x.messages and q.startswith("asl_workflow")},
                   crashes_left=len(between) + len(ops), protocol_errors=list(w.broker.protocol_errors), trace=w.trace[:80])
    finally:
        w.close()
    return out


def norm(v):
    """History event numbers quoted in Cause texts restart after the in-memory history was lost: not part of the outcome."""
    import re
    t = re.sub(r"\(entered at the event id #\d+\)", "(entered at the event id #N)", json.dumps(v))
    # request ids quoted by the long-form invoke result are message ids (fresh UUIDs): not part of the outcome either
    t = re.sub(r"[0-9a-f]{8}-[0-9a-f]{4}-4[0-9a-f]{3}-[0-9a-f]{4}-[0-9a-f]{12}", "UUID", t)
    return json.loads(t)


def judge(case, base, got, crashes):
    fails = []
    kinds = sorted(set(c["mode"] for c in crashes))
    tag = "+".join(kinds) + ("x%d" % len(crashes) if len(crashes) > 1 else "")
    if got["crashes_left"]:
        return [], False          # the crash point lies beyond the end of this run: nothing was injected
    in_prog = any(got["in_progress"])
    if not got["quiescent"]:
        fails.append(("no-quiescence-after-restart:" + tag, "still busy after %d steps" % got["steps"]))
    fewer = sum(len(v) for v in got["requests"].values()) < sum(len(v) for v in base["requests"].values())
    if base["outcome"] is not None or got["announced"]:
        if got["outcome"] is None:
            fails.append(("execution-lost:" + tag, "no terminal status after the restart; baseline %r" % (base["outcome"],)))
        elif got["terminals"] != 1 and kinds == ["between"]:
            fails.append(("ended-%d-times:%s" % (got["terminals"], tag), repr(got["outcome"])))
    if kinds == ["between"] and got["outcome"] is not None and base["outcome"] is not None:
        b, g = base["outcome"], got["outcome"]
        same = b["status"] == g["status"] and norm(b.get("output")) == norm(g.get("output")) and b.get("error") == g.get("error")
        if not same:
            never_sent = fewer and g.get("error") == "States.Timeout"
            fails.append(("outcome-changed-by-crash:%s:%s->%s%s" % (tag, b["status"], g["status"], ":task-not-invoked-after-redelivery" if never_sent else ""), "baseline %r, with crash %r" % (b, g)))
        for fn, reqs in got["requests"].items():
            seen = {}
            for corr, red in reqs:
                seen[corr] = seen.get(corr, 0) + 1
            dup = [c for c, n in seen.items() if n > 1]
            if dup:
                fails.append(("task-requested-again:" + tag, "function %s was asked %d times for correlation id %s" % (fn, seen[dup[0]], dup[0])))
            if len(reqs) > len(base["requests"].get(fn, [])):
                fails.append(("more-task-requests-than-baseline:" + tag, "function %s: %d requests, baseline %d" % (fn, len(reqs), len(base["requests"].get(fn, [])))))
    if got["unacked"] or got["ready"]:
        left = got.get("leftover") or []
        f61 = bool(left) and not got["ready"] and all(x["redelivered"] and x["task_event"] and not x["request_sent"] for x in left)
        fails.append(("leftover-after-restart:" + tag + (":task-not-invoked-after-redelivery" if f61 else ""), "unacked=%d ready=%r %r" % (got["unacked"], got["ready"], left[:3])))

    for e in got["exceptions"]:
        fails.append(("engine-callback-exception:%s:%s:%s" % (e["type"], e["where"], tag), json.dumps(e)[:300]))
    if got["protocol_errors"]:
        fails.append(("protocol-error:" + tag, repr(got["protocol_errors"][:2])))
    # The join state of Map/Parallel states lives in the memory of the process (recorded finding): crashes of machines with a fan-out are reported as their own class
    # A crash inside a handler can leave a fan-out half launched (some Branch events published, the Map/Parallel event redelivered and launched again under a new ID):
    # the first launch can never join and keeps its events. That, too, is the in-memory join state of F62, so in-handler crashes of any fan-out machine stay in that class;
    # for crashes between handlers only the fan-outs whose join state cannot be rebuilt from redelivered events do.
    text = json.dumps(case["definition"])
    has_fanout = '"Type": "Parallel"' in text or '"Type": "Map"' in text
    # (a fan-out in which a Branch fails relies on the termination markers, which are part of the same in-memory join state: after a restart the redelivered
    #  events of its other Branches are not recognised as belonging to a state that has already failed)
    failing_fanout = has_fanout and (base.get("outcome") or {}).get("status") == "FAILED"
    if case.get("dups_known") and kinds == ["between"]:
        fails = [((b + ":fanout") if b.startswith(("task-requested-again", "more-task-requests-than-baseline", "ended-", "leftover-after-restart")) else b, d) for b, d in fails]
    elif f62_prone(case["definition"]) or failing_fanout or (has_fanout and kinds != ["between"]):
        fails = [(b + ":fanout", d) for b, d in fails]
    return fails, in_prog


def evaluate(c):
    """c: dict(definition,input,oracle,type,schedule,crashes) -> (fails, nontrivial, info)"""
    case = {k: c[k] for k in ("definition", "input", "oracle", "type")}
    case.update({k: c[k] for k in ("dup_replies", "dups_known", "orphan_retention_ms", "extra_machines") if k in c})       # (options of the directed families travel with the case)
    base = run(case, c["schedule"], (), store=c.get("store", "file"))
    if base["exceptions"] or not base["quiescent"]:
        return [], False, {"skipped": "baseline not clean"}
    got = run(case, c["schedule"], c["crashes"], store=c.get("store", "file"))
    fails, nt = judge(case, base, got, c["crashes"])
    return fails, nt, {"baseline": base["outcome"], "with_crash": got["outcome"], "steps": base["steps"], "ops": base["ops"]}


def shard(k, seed, tier, examples=40):
    import hypothesis
    from hypothesis import given, settings, HealthCheck, Phase, strategies as st
    camp = Campaign(PID, rule=RULE, tier=tier, seed=seed)
    between = st.fixed_dictionaries({"mode": st.just("between"), "step": st.integers(1, 40), "down": st.sampled_from(DOWN)})
    op = st.fixed_dictionaries({"mode": st.just("op"), "n": st.integers(1, 120), "down": st.sampled_from(DOWN)})
    crashes = st.one_of(st.lists(between, min_size=1, max_size=1), st.lists(between, min_size=1, max_size=1), st.lists(op, min_size=1, max_size=1), st.lists(op, min_size=1, max_size=1),
                        st.lists(between, min_size=2, max_size=2, unique_by=lambda c: c["step"]), st.lists(op, min_size=2, max_size=2, unique_by=lambda c: c["n"]))

    @hypothesis.seed(seed)
    @settings(max_examples=examples, deadline=None, database=None, suppress_health_check=list(HealthCheck), phases=[Phase.generate])
    @given(st.one_of(S.cases_with_schedules(CFG_SEQ, max_sched=30, multi=False), S.cases_with_schedules(CFG_SEQ, max_sched=30, multi=False), S.cases_with_schedules(CFG, max_sched=30, multi=False)),
           crashes, st.integers(0, 10 ** 6), st.sampled_from(["file", "file", "redis"]))
    def go(t, cr, salt, store):
        case, sched, starts = t
        c = {"definition": case["definition"], "input": case["input"], "oracle": case["oracle"], "type": case["type"], "schedule": sched, "crashes": cr, "store": store}
        try:
            base = run(case, sched, (), store=store)
            if base["exceptions"] or not base["quiescent"]:
                camp.count("baseline-not-clean")
                return
            # scale the drawn crash points into the run: steps into 1..steps, operations into 1..ops
            cr2 = []
            for x in cr:
                x = dict(x)
                if x["mode"] == "between":
                    x["step"] = 1 + (x["step"] * 7 + salt) % max(1, base["steps"])
                else:
                    x["n"] = 1 + (x["n"] * 13 + salt) % max(1, base["ops"])
                cr2.append(x)
            c["crashes"] = cr2
            got = run(case, sched, cr2, store=store)
            fails, nt = judge(case, base, got, cr2)
        except HarnessError as e:
            camp.harness_error("%s in %s" % (e, json.dumps(c)[:500]))
            return
        except Exception as e:
            camp.harness_error("case crashed the harness: %r %s %s" % (e, traceback.format_exc()[-900:], json.dumps(c)[:500]))
            return
        feats = [f for f in case.get("features", []) if f in ("Parallel", "Map", "Wait", "Retry", "Catch", "task-error", "fanout-with-failing-branch")]
        camp.case(c, nontrivial=bool(nt), classes=["crash-" + "+".join(sorted(set(x["mode"] for x in cr2))), "crashes-%d" % len(cr2), "type-" + case["type"], "store-" + store] +
                  ["f:" + f for f in feats] + (["machine-with-fanout"] if ('"Type": "Parallel"' in json.dumps(case["definition"]) or '"Type": "Map"' in json.dumps(case["definition"])) else ["machine-sequential"]) + (["down>0"] if any(x.get("down") for x in cr2) else []) + (["in-progress"] if nt else ["outside-execution"]),
                  sample=dict(c, baseline=base["outcome"], with_crash=got["outcome"]))
        for b, d in fails:
            camp.fail(b, c, d)
    go()
    return camp.export()


def enumerate_shard(k, seed, tier, examples=6, nshards=1):
    """Every between-handler step and every in-handler operation of small generated cases."""
    import hypothesis
    from hypothesis import given, settings, HealthCheck, Phase, strategies as st
    camp = Campaign(PID, rule=RULE, tier=tier, seed=seed)

    @hypothesis.seed(seed)
    @settings(max_examples=examples, deadline=None, database=None, suppress_health_check=list(HealthCheck), phases=[Phase.generate])
    @given(st.one_of(S.cases_with_schedules(dict(CFG_SEQ, max_states=5), max_sched=12, multi=False), S.cases_with_schedules(dict(CFG_SEQ, max_states=5), max_sched=12, multi=False),
                     S.cases_with_schedules(dict(CFG, max_states=5), max_sched=12, multi=False)), st.sampled_from(DOWN))
    def go(t, down):
        case, sched, starts = t
        try:
            base = run(case, sched, ())
            if base["exceptions"] or not base["quiescent"] or base["steps"] > 60 or base["ops"] > 250:
                camp.count("enumeration-skipped")
                return
            points = [{"mode": "between", "step": s, "down": down} for s in range(1, base["steps"] + 1)] + [{"mode": "op", "n": n, "down": down} for n in range(1, base["ops"] + 1)]
            for p in points:
                c = {"definition": case["definition"], "input": case["input"], "oracle": case["oracle"], "type": case["type"], "schedule": sched, "crashes": [p]}
                got = run(case, sched, [p])
                fails, nt = judge(case, base, got, [p])
                camp.case(c, nontrivial=bool(nt), classes=["enumerated", "crash-" + p["mode"], "type-" + case["type"]] + (["in-progress"] if nt else ["outside-execution"]))
                for b, d in fails:
                    camp.fail(b, c, d)
        except HarnessError as e:
            camp.harness_error(str(e))
        except Exception as e:
            camp.harness_error("enumeration crashed the harness: %r %s" % (e, traceback.format_exc()[-900:]))
    go()
    return camp.export()


def rebuildable_fanouts():
    """Fan-outs whose join state can be rebuilt from redelivered events: every Branch ends in a Pass / Wait / Succeed that recomputes its output from its event.
    The Branches take different times (tasks with delays, waits), so that there are windows in which some have finished and others are still in flight."""
    T = lambda fn, nxt: {"Type": "Task", "Resource": "arn:aws:rpcmessage:local::function:" + fn, "ResultPath": "$.t", "Next": nxt}
    out = []
    par = {"StartAt": "P", "States": {"P": {"Type": "Parallel", "ResultPath": "$.r", "Next": "Z", "Branches": [
        {"StartAt": "A1", "States": {"A1": {"Type": "Pass", "Result": {"quick": True}, "End": True}}},
        {"StartAt": "B1", "States": {"B1": T("slow1", "B2"), "B2": {"Type": "Pass", "Parameters": {"b.$": "$.t"}, "End": True}}},
        {"StartAt": "C1", "States": {"C1": {"Type": "Wait", "Seconds": 2, "Next": "C2"}, "C2": {"Type": "Succeed"}}}]}, "Z": {"Type": "Pass", "End": True}}}
    out.append(("parallel", par, {"x": 1}))
    mp = {"StartAt": "M", "States": {"M": {"Type": "Map", "ItemsPath": "$.items", "ResultPath": "$.r", "End": True, "ItemProcessor": {"StartAt": "I1", "States": {
        "I1": T("byitem", "I2"), "I2": {"Type": "Pass", "Parameters": {"i.$": "$.t"}, "End": True}}}}}}
    out.append(("map", mp, {"items": [{"d": 0}, {"d": 3}, {"d": 1}]}))
    # a Map that runs in MaxConcurrency blocks: the events held for the finished blocks are what rebuilds their results after a restart (redelivered, they also launch
    # later blocks again: duplicated requests and notifications are part of recorded finding F62, a lost or changed outcome is not)
    mpb = {"StartAt": "M", "States": {"M": {"Type": "Map", "ItemsPath": "$.items", "ResultPath": "$.r", "MaxConcurrency": 2, "End": True, "ItemProcessor": {"StartAt": "I1", "States": {
        "I1": T("byitem", "I2"), "I2": {"Type": "Pass", "Parameters": {"i.$": "$.t"}, "End": True}}}}}}
    out.append(("map-blocks", mpb, {"items": [{"d": 0}, {"d": 1}, {"d": 0, "k": 2}, {"d": 1, "k": 3}, {"d": 0, "k": 4}]}))
    oracle = {"slow1": {"seq": [{"ok": "$echo", "delay": 3}]}, "byitem": {"seq": [{"ok": "$echo"}], "by_key": {json.dumps({"d": 3}): [{"ok": "$echo", "delay": 3}], json.dumps({"d": 1}): [{"ok": "$echo", "delay": 1}]}}}
    oracle["byitem"]["by_key"][json.dumps({"d": 1, "k": 3})] = [{"ok": "$echo", "delay": 1}]
    cases_ = [{"definition": d, "input": i, "oracle": oracle, "type": "STANDARD", "label": lab, "dups_known": lab == "map-blocks"} for lab, d, i in out]
    # a parent whose Task runs a child execution synchronously (the engine chooses the child's name): after a restart the redelivered Task is not launched again, it
    # waits for the child it launched before the crash
    child = {"StartAt": "K1", "States": {"K1": T("slow1", "K2"), "K2": {"Type": "Pass", "Parameters": {"fromChild.$": "$.t"}, "End": True}}}
    for form in ("startExecution.sync", "startExecution.sync:2"):
        parent = {"StartAt": "L", "States": {"L": {"Type": "Task", "Resource": "arn:aws:states:::states:" + form, "Parameters": {"StateMachineArn": "arn:aws:states:local:0123456789:stateMachine:kid", "Input": {"v": 20}},
                                                   "ResultSelector": {"out.$": "$.Output", "status.$": "$.Status"}, "ResultPath": "$.child", "Next": "Z"}, "Z": {"Type": "Pass", "End": True}}}
        cases_.append({"definition": parent, "input": {"x": 1}, "oracle": oracle, "type": "STANDARD", "label": "sync-child-" + form.split(".")[-1], "extra_machines": {"kid": child}})
    return cases_


def rebuildable_shard(k, seed, tier, nshards=1):
    """Every between-handler crash point (and a few down times) of the rebuildable fan-outs: the execution must finish exactly as without the crash."""
    camp = Campaign(PID, rule=RULE, tier=tier, seed=seed)
    jobs = []
    for case in rebuildable_fanouts():
        base = run(case, [], ())
        if base["exceptions"] or not base["quiescent"]:
            camp.harness_error("baseline of the rebuildable fan-out %s is not clean: %r" % (case["label"], base["exceptions"][:1]))
            continue
        for step in range(1, base["steps"] + 1):
            for down in ((0, 1.5) if tier != "thorough" else (0, 0.25, 1.5, 5)):
                jobs.append((case, base, {"mode": "between", "step": step, "down": down}))
    for j, (case, base, p) in enumerate(jobs):
        if j % nshards != k:
            continue
        c = {"definition": case["definition"], "input": case["input"], "oracle": case["oracle"], "type": case["type"], "schedule": [], "crashes": [p]}
        if case.get("dups_known"):
            c["dups_known"] = True
        if case.get("extra_machines"):
            c["extra_machines"] = case["extra_machines"]
        try:
            got = run(case, [], [p])
            fails, nt = judge(case, base, got, [p])
        except Exception as e:
            camp.harness_error("rebuildable fan-out crashed the harness: %r %s" % (e, traceback.format_exc()[-600:]))
            continue
        camp.case(c, nontrivial=bool(nt), classes=["rebuildable-fanout-" + case["label"], "crash-between"] + (["in-progress"] if nt else ["outside-execution"]))
        for b, d in fails:
            camp.fail(b, c, d)
    return camp.export()


def orphan_cases():
    """Sequential machines whose Task is slow: a crash with the request in flight and a down time longer than the worker needs makes the reply wait in the instance's
    reply queue next to the redelivered Task event; which of the two is delivered first is the schedule's choice (reply first = the 'orphaned response' path)."""
    T = lambda fn, **kw: dict({"Type": "Task", "Resource": "arn:aws:rpcmessage:local::function:" + fn, "ResultPath": "$.t"}, **kw)
    oracle = {"slow1": {"seq": [{"ok": "$echo", "delay": 3}]}, "quick": {"seq": [{"ok": "$echo"}]}}
    one = {"StartAt": "T1", "States": {"T1": T("slow1", Next="P"), "P": {"Type": "Pass", "Parameters": {"got.$": "$.t"}, "End": True}}}
    two = {"StartAt": "T0", "States": {"T0": T("quick", Next="T1"), "T1": T("slow1", Next="T2"), "T2": T("quick", End=True)}}
    out = [{"definition": d, "input": {"x": 1}, "oracle": oracle, "type": "STANDARD", "label": lab} for lab, d in (("one-task", one), ("three-tasks", two))]
    # a worker that answers twice: two replies with the same correlation id are waiting when the engine comes back
    # (in the quick tier only its single-crash runs are made: see orphan_shard)
    # (a second reply stays an orphan until its retention runs out: 20 virtual seconds here instead of the ten minutes of the other runs, to keep the runs short)
    return out + [dict(out[0], label="one-task-worker-replies-twice", dup_replies=0.5, orphan_retention_ms=20000)]


def orphan_shard(k, seed, tier, nshards=1):
    """Repeated crashes around an orphaned reply: a first crash between two handlings with the request in flight (the engine is down while the worker answers), then a
    second crash after every single broker operation of the recovery, under schedules that deliver the waiting reply before / after the redelivered Task event."""
    camp = Campaign(PID, rule=RULE, tier=tier, seed=seed)
    jobs = []
    scheds = [[], [1] * 12, [0, 0, 0, 0] + [1] * 8, [2] * 12, [0, 1] * 6] if tier != "thorough" else [[], [1] * 12, [0, 0, 0, 0] + [1] * 8, [2] * 12, [0, 1] * 6, [1, 0] * 6, [0, 0, 1, 1] * 3, [3] * 12]
    for case in orphan_cases():
        for sched in scheds:
            if case.get("dup_replies") and tier != "thorough" and sched not in ([], [0, 1] * 6):
                continue
            base = run(case, sched, ())
            if base["exceptions"] or not base["quiescent"]:
                camp.harness_error("baseline of the orphaned-reply case %s is not clean" % case["label"])
                continue
            for s1 in range(1, base["steps"] + 1):
                jobs.append((case, sched, base, s1))
    for j, (case, sched, base, s1) in enumerate(jobs):
        if j % nshards != k:
            continue
        c1 = {"mode": "between", "step": s1, "down": 5}
        try:
            first = run(case, sched, [c1])
            if first["crashes_left"] or not any(first["in_progress"]):
                continue

            def timers(got_, cr_):
                # the drain clause after a restart: once the execution has ended no timer of the engine (a Task time-out, an orphan's retention) stays armed
                if got_["outcome"] is not None and got_["timers_left"] and not got_["unacked"]:
                    return [("timer-left-armed-after-restart:%s" % "+".join(sorted(set(c_["mode"] for c_ in cr_))), "%r still armed after the execution ended %s" % (got_["timers_left"][:3], got_["outcome"]["status"]))]
                return []
            c0 = {"definition": case["definition"], "input": case["input"], "oracle": case["oracle"], "type": case["type"], "schedule": sched, "crashes": [c1], "dup_replies": case.get("dup_replies", 0), "orphan_retention_ms": case.get("orphan_retention_ms", 600000)}
            fails0, nt0 = judge(case, base, first, [c1])
            camp.case(c0, nontrivial=bool(nt0), classes=["orphaned-reply-" + case["label"], "crash-between", "crashes-1"])
            for b, d in fails0 + timers(first, [c1]):
                camp.fail(b, c0, d)
            if case.get("dup_replies") and tier != "thorough":
                continue        # (the second reply is retained as an orphan for ten virtual minutes: the double-crash enumeration of this case is left to the thorough tier)
            for n in range(1, first["ops"] + 1):
                cr = [c1, {"mode": "op", "n": n, "down": 0}]
                c = {"definition": case["definition"], "input": case["input"], "oracle": case["oracle"], "type": case["type"], "schedule": sched, "crashes": cr, "dup_replies": case.get("dup_replies", 0), "orphan_retention_ms": case.get("orphan_retention_ms", 600000)}
                got = run(case, sched, cr)
                fails, nt = judge(case, base, got, cr)
                camp.case(c, nontrivial=bool(nt), classes=["orphaned-reply-" + case["label"], "crash-between+op", "crashes-2"] + (["in-progress"] if nt else ["outside-execution"]))
                for b, d in fails + timers(got, cr):
                    camp.fail(b, c, d)
        except Exception as e:
            camp.harness_error("orphaned-reply case crashed the harness: %r %s" % (e, traceback.format_exc()[-600:]))
    return camp.export()


def replay_case(case):
    fails, nt, info = evaluate(case)
    return fails


def main(tier, seed, replay=None):
    camp = Campaign(PID, rule=RULE, tier=tier, seed=seed)
    camp.assumptions = [
        "a crash = the broker sees the connection drop (unacknowledged deliveries return to the front of their queues with redelivered=True, exclusive consumers vanish, the process's timers are gone); "
        "durable queues and the JSON definition store survive; the execution/history tables of the file-backed configuration are in process memory and are lost",
        "orphaned_response_retention_ms keeps its production default (10 min) and execution_ttl is 15 min; workers, their delayed replies and the clock keep running while the engine is down",
        "outcome preservation and the no-second-request clause are asserted for crashes between handler invocations; crashes inside a handler assert no-loss (exactly one terminal status), quiescence and no leftovers",
        "a crash point drawn beyond the end of the run injects nothing and is not counted as non-trivial",
    ]
    if replay:
        with open(replay) as fp:
            rec = json.load(fp)
        for b, d in replay_case(rec["case"]):
            camp.fail(b, rec["case"], d)
        camp.case(rec["case"], True)
        camp.min_nontrivial = 0
        camp.write_evidence = False
        return camp.finish()
    camp.run_witnesses(replay_case)
    if tier == "thorough":
        run_shards(camp, __name__, "shard", 16, examples=700)
        run_shards(camp, __name__, "enumerate_shard", 16, examples=12)
        run_shards(camp, __name__, "rebuildable_shard", 16, nshards=16)
        run_shards(camp, __name__, "orphan_shard", 16, nshards=16)
    else:
        run_shards(camp, __name__, "shard", 8, examples=60)
        run_shards(camp, __name__, "enumerate_shard", 8, examples=3)
        run_shards(camp, __name__, "rebuildable_shard", 8, nshards=8)
        run_shards(camp, __name__, "orphan_shard", 8, nshards=8)
    return camp.finish()
