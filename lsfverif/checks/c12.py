"""
C12 - InputPath/OutputPath/ResultPath obey the filter laws and never corrupt data.

Generator : JSON documents (exhaustive over a small alphabet at quick, random
            deeper/wider at thorough) x reference paths of the supported grammar
            (dot, bracket-quoted incl. space/hyphen keys, [i], nested; existing
            and missing targets; '$'; null; '$$...') x results that are fresh,
            the input itself, or a sub-tree of it.
Oracle    : lsfverif.ref.paths (read / put / placeable), plus structural laws
            (non-mutation on read, finite tree, put-get, frame, dot==bracket,
            exception typing).
"""
import copy, itertools, json, sys

from .. import env
from ..runner import Campaign, HarnessError, run_shards
from ..ref import paths as rp

PID = "C12"
RULE = ("cases = (document, path[, result]) triples; documents enumerated exhaustively over leaves "
        "{0,'a',null,true,[],{}} with keys {'a','b c'} up to depth 2 / width 2 (quick) or drawn by "
        "Hypothesis up to depth 4 / width 4 (thorough); paths enumerated over steps {'a','b c',0,1} (plus 'k-1','b','A','_x9',2,3 in the random part) up to "
        "length 3 in dot and bracket rendering; results fresh / the input itself / a sub-tree of the input. "
        "Non-trivial = path depth >= 2 or the result aliases the input; distinct by canonical JSON of the case.")

KEYS = ["a", "b c", "k-1", "arn:aws:x", "a:b"]          # random part (keys with a colon - ARNs are common keys - are written in bracket notation)
XKEYS = ["a", "b c"]                # exhaustive part
LEAVES = [0, "a", None, True, [], {}]
STEPS = ["a", "b c", 0, 1]          # exhaustive part

_mod = None


def repo():
    global _mod
    if _mod is None:
        env.setup_paths(fakes=False)
        import asl_workflow_engine.state_engine_paths as m
        import asl_workflow_engine.asl_exceptions as ex
        _mod = (m, ex)
    return _mod


# ------------------------------------------------------------------ oracles
def check_read(doc, steps, ctx=None):
    """Return list of (bucket, detail) failures for reading `steps` from `doc`."""
    m, ex = repo()
    fails = []
    expected_missing = False
    try:
        expected = rp.read(doc, steps)
    except rp.Missing:
        expected_missing = True
    outcomes = []
    for style in ("dot", "bracket"):
        path = rp.unparse(steps, style)
        snap = copy.deepcopy(doc)
        try:
            got = ("value", m.apply_path(doc, ctx or {}, path))
        except ex.PathMatchFailure:
            got = ("missing", None)
        except Exception as e:  # any other exception type is a violation
            got = ("exception", type(e).__name__)
        if doc != snap or not _same_types(doc, snap):
            fails.append(("read-mutates:path", "path %s mutated %r -> %r" % (path, snap, doc)))
            doc = snap
        outcomes.append(got)
        if got[0] == "exception":
            fails.append(("read-exception:%s" % got[1], "path %s on %r raised %s" % (path, doc, got[1])))
        elif expected_missing:
            if got[0] == "value":
                fails.append(("read-invents-value:%s" % _kind(doc), "path %s on %r returned %r, nothing is addressed" % (path, doc, got[1])))
        else:
            if got[0] == "missing":
                fails.append(("read-misses-existing:%s" % _doc_kind(doc, steps), "path %s on %r raised PathMatchFailure, expected %r" % (path, doc, expected)))
            elif not _json_equal(got[1], expected):
                fails.append(("read-wrong-value:%s" % _doc_kind(doc, steps), "path %s on %r returned %r, expected %r" % (path, doc, got[1], expected)))
    if outcomes[0][0] != outcomes[1][0] or (outcomes[0][0] == "value" and not _json_equal(outcomes[0][1], outcomes[1][1])):
        fails.append(("dot-vs-bracket-read", "%r: dot -> %r, bracket -> %r" % (doc, outcomes[0], outcomes[1])))
    return fails


def check_root_null_context(doc, ctx):
    m, ex = repo()
    fails = []
    snap = copy.deepcopy(doc)
    for fn_name, call in (("apply_path", lambda p: m.apply_path(doc, ctx, p)),
                          ("apply_jsonpath", lambda p: m.apply_jsonpath(doc, p))):
        try:
            got = call("$")
            if not _json_equal(got, snap):
                fails.append(("root-not-whole-input:%s" % _kind(snap), "%s(%r,'$') returned %r" % (fn_name, snap, got)))
        except Exception as e:
            fails.append(("root-exception:%s" % type(e).__name__, "%s(%r,'$') raised %r" % (fn_name, snap, e)))
        try:
            got = call(None)
            if got != {} or not isinstance(got, dict):
                fails.append(("null-path-not-empty-object:%s" % _kind(snap), "%s(%r,None) returned %r" % (fn_name, snap, got)))
        except Exception as e:
            fails.append(("null-path-exception:%s" % type(e).__name__, "%s(%r,None) raised %r" % (fn_name, snap, e)))
    if doc != snap:
        fails.append(("read-mutates:root", "root/null read mutated %r -> %r" % (snap, doc)))
    # '$$' reads the context object: the roles of doc and ctx are swapped
    return fails


def check_context_read(ctx_doc, steps, other):
    """'$$'+path must read from the context (ctx_doc), never from the input (other)."""
    m, ex = repo()
    fails = []
    path = "$" + rp.unparse(steps, "dot")
    snap = copy.deepcopy(ctx_doc)
    try:
        expected = ("value", rp.read(ctx_doc, steps))
    except rp.Missing:
        expected = ("missing", None)
    try:
        got = ("value", m.apply_path(other, ctx_doc, path))
    except ex.PathMatchFailure:
        got = ("missing", None)
    except Exception as e:
        got = ("exception", type(e).__name__)
    if ctx_doc != snap:
        fails.append(("read-mutates:context", "context read %s mutated the context" % path))
    if got[0] == "exception":
        fails.append(("context-read-exception:%s" % got[1], "%s raised %s" % (path, got[1])))
    elif got[0] != expected[0] or (got[0] == "value" and not _json_equal(got[1], expected[1])):
        fails.append(("context-read-wrong", "apply_path(%r, ctx=%r, %s) -> %r expected %r" % (other, ctx_doc, path, got, expected)))
    return fails


def check_put(doc, steps, result_kind, fresh=None):
    """
    result_kind: "fresh" (use `fresh`), "self" (the input object itself),
    ("sub", steps2) (the sub-tree of the input at steps2, by reference).
    """
    m, ex = repo()
    fails = []
    snap = copy.deepcopy(doc)
    work = copy.deepcopy(doc)
    if result_kind == "fresh":
        result = copy.deepcopy(fresh)
        tag = "fresh"
    elif result_kind == "self":
        result = work
        tag = "alias-self"
    else:
        result = rp.read(work, result_kind[1])
        tag = "alias-sub"
    result_snap = copy.deepcopy(result)
    verdict = rp.placeable(snap, steps)
    outs = []
    for style in ("dot", "bracket"):
        w = copy.deepcopy(doc)
        if result_kind == "fresh":
            r = copy.deepcopy(fresh)
        elif result_kind == "self":
            r = w
        else:
            r = rp.read(w, result_kind[1])
        path = rp.unparse(steps, style)
        try:
            m.apply_jsonpath(w, path)          # read - place - read on the very same object (no stale lookups)
        except Exception:
            pass
        try:
            out = ("value", m.apply_resultpath(w, r, path))
        except ex.ResultPathMatchFailure:
            out = ("unplaceable", None)
        except Exception as e:
            out = ("exception", type(e).__name__ + ":" + str(e)[:60])
        outs.append(out)
        where = tag
        if out[0] == "exception":
            fails.append(("put-exception:%s:%s" % (out[1].split(":")[0], where), "apply_resultpath(%r, <%s>, %s) raised %s" % (snap, tag, path, out[1])))
            continue
        if verdict is False:
            if out[0] != "unplaceable":
                fails.append(("put-accepts-unplaceable:%s" % where, "apply_resultpath(%r, %r, %s) returned %r" % (snap, result_snap, path, _safe(out[1]))))
            continue
        if out[0] == "unplaceable":
            if verdict is True:
                fails.append(("put-rejects-placeable:%s" % where, "apply_resultpath(%r, %r, %s) raised ResultPathMatchFailure" % (snap, result_snap, path)))
            continue
        value = out[1]
        if not rp.is_finite_tree(value):
            fails.append(("put-not-a-finite-tree:%s" % where, "apply_resultpath(%r, <%s>, %s) built a cyclic structure" % (snap, tag, path)))
            continue
        try:
            json.dumps(value)
        except Exception as e:
            fails.append(("put-not-serialisable:%s" % where, "%r" % e))
            continue
        if any(isinstance(x, int) and x < 0 for x in steps):
            continue      # negative indices are outside the Reference Path grammar: only "no crash, finite tree" is asserted
        if True:
            try:
                back2 = ("value", m.apply_jsonpath(value, path))
            except ex.PathMatchFailure:
                back2 = ("missing", None)
            except Exception as e:
                back2 = ("exception", type(e).__name__)
            # an empty container / falsy leaf placed at the path is still "there"; jsonpath cannot address into falsy roots
            if back2[0] != "value" or not _json_equal(back2[1], result_snap):
                if not (back2[0] == "missing" and not value):
                    fails.append(("put-then-read:%s" % where, "after placing %r at %s into %r the engine's own reader returns %r" % (result_snap, path, snap, back2)))
        try:
            back = rp.read(value, steps)
            if not _json_equal(back, result_snap):
                fails.append(("put-get:%s" % where, "after placing %r at %s into %r reading it back gives %r (output %r)" % (result_snap, path, snap, back, value)))
        except rp.Missing:
            fails.append(("put-get-missing:%s" % where, "after placing %r at %s into %r the path is absent (output %r)" % (result_snap, path, snap, value)))
        if verdict is True:
            expected = rp.put(snap, steps, result_snap)
            if not _json_equal(value, expected):
                fails.append(("put-frame:%s" % where, "placing %r at %s into %r gave %r, expected %r" % (result_snap, path, snap, value, expected)))
    return fails


def check_put_root_null(doc, result):
    m, ex = repo()
    fails = []
    try:
        out = m.apply_resultpath(copy.deepcopy(doc), copy.deepcopy(result), "$")
        if not _json_equal(out, result):
            fails.append(("put-root-not-replace", "ResultPath '$' with input %r result %r gave %r" % (doc, result, out)))
    except Exception as e:
        fails.append(("put-root-exception:%s" % type(e).__name__, repr(e)))
    if True:
        try:
            out = m.apply_resultpath(copy.deepcopy(doc), copy.deepcopy(result), None)
            if not _json_equal(out, doc):
                fails.append(("put-null-not-discard", "ResultPath null with input %r result %r gave %r" % (doc, result, out)))
        except Exception as e:
            fails.append(("put-null-exception:%s" % type(e).__name__, repr(e)))
    try:
        m.apply_resultpath(copy.deepcopy(doc), copy.deepcopy(result), "$$.a")
        fails.append(("put-into-context-accepted", "ResultPath '$$.a' was accepted"))
    except ex.ResultPathMatchFailure:
        pass
    except Exception as e:
        fails.append(("put-into-context-exception:%s" % type(e).__name__, repr(e)))
    return fails


# ------------------------------------------------------------------ helpers
def _same_types(a, b):
    if type(a) is not type(b):
        return False
    if isinstance(a, dict):
        return a.keys() == b.keys() and all(_same_types(a[k], b[k]) for k in a)
    if isinstance(a, list):
        return len(a) == len(b) and all(_same_types(x, y) for x, y in zip(a, b))
    return True


def _json_equal(a, b):
    """JSON equality: True != 1, but 1 == 1.0."""
    if isinstance(a, bool) or isinstance(b, bool):
        return isinstance(a, bool) and isinstance(b, bool) and a == b
    if isinstance(a, (int, float)) and isinstance(b, (int, float)):
        return a == b
    if type(a) is not type(b):
        return False
    if isinstance(a, dict):
        return a.keys() == b.keys() and all(_json_equal(a[k], b[k]) for k in a)
    if isinstance(a, list):
        return len(a) == len(b) and all(_json_equal(x, y) for x, y in zip(a, b))
    return a == b


def _kind(v):
    if v is None:
        return "null"
    if isinstance(v, bool):
        return "bool"
    if isinstance(v, (int, float)):
        return "zero" if v == 0 else "number"
    if isinstance(v, str):
        return "empty-string" if v == "" else "string"
    if isinstance(v, list):
        return "empty-array" if not v else "array"
    if isinstance(v, dict):
        return "empty-object" if not v else "object"
    return type(v).__name__


def _shape(steps):
    return "".join("i" if isinstance(s, int) else ("q" if not s.isidentifier() else "n") for s in steps) or "root"


def _doc_kind(doc, steps):
    try:
        return "target-" + _kind(rp.read(doc, steps))
    except rp.Missing:
        return "missing"


def _safe(v):
    try:
        return json.dumps(v)[:200]
    except Exception:
        return "<unserialisable>"


# --------------------------------------------------------------- generators
def docs_depth(depth, leaves=LEAVES, keys=XKEYS, width=2):
    level = list(leaves)
    allv = list(leaves)
    for _ in range(depth):
        new = []
        for n in range(1, width + 1):
            for ks in itertools.combinations(keys, n):
                for vals in itertools.product(level, repeat=n):
                    new.append(dict(zip(ks, vals)))
            for vals in itertools.product(level, repeat=n):
                new.append(list(vals))
        level = allv + new
        allv = level
    return allv


def all_paths(maxlen):
    out = [[]]
    for n in range(1, maxlen + 1):
        out.extend(list(p) for p in itertools.product(STEPS, repeat=n))
    return out


def subtree_paths(doc, maxlen=2):
    """Paths that exist in doc and address a container (for alias-sub results)."""
    out = []
    for p in all_paths(maxlen):
        if p and rp.exists(doc, p) and isinstance(rp.read(doc, p), (dict, list)):
            out.append(p)
    return out


def replay_case(case):
    """Re-execute one recorded case; used for witnesses and the replay tier."""
    kind = case["kind"]
    if kind == "read":
        return check_read(case["doc"], case["steps"])
    if kind == "root":
        return check_root_null_context(case["doc"], case.get("ctx", {}))
    if kind == "context":
        return check_context_read(case["doc"], case["steps"], case.get("other", {}))
    if kind == "put":
        rk = case["result_kind"]
        if isinstance(rk, list):
            rk = (rk[0], rk[1])
        return check_put(case["doc"], case["steps"], rk, case.get("fresh"))
    if kind == "put-root":
        return check_put_root_null(case["doc"], case["result"])
    raise HarnessError("unknown case kind %r" % kind)


def _feed(camp, case, fails, nontrivial, classes):
    camp.case(case, nontrivial=nontrivial, classes=classes)
    for bucket, detail in fails:
        camp.fail(bucket, case, detail)


def calibrate():
    """The reference must reproduce the repo's own Goessner expectations for definite paths."""
    store = {"store": {"book": [{"category": "reference", "price": 8.95}, {"category": "fiction", "price": 12.99}],
                       "bicycle": {"color": "red", "price": 19.95}}}
    exp = {"$.store.book[0].category": "reference", "$.store.bicycle.color": "red",
           "$['store']['book'][1]['price']": 12.99, "$.store.book[1]": {"category": "fiction", "price": 12.99}}
    for p, v in exp.items():
        if rp.read(store, rp.parse(p)) != v:
            raise HarnessError("ref.paths calibration failed on %s" % p)
    if rp.unparse(rp.parse("$.a['b c'][0]"), "dot") != "$.a['b c'][0]":
        raise HarnessError("ref.paths parse/unparse calibration failed")
    if rp.put({"a": 1}, ["b", "c"], 5) != {"a": 1, "b": {"c": 5}}:
        raise HarnessError("ref.paths put calibration failed")
    if rp.placeable({"a": [1]}, ["a", 1]) is not False or rp.placeable({"a": None}, ["a", "b"]) != rp.AMBIGUOUS:
        raise HarnessError("ref.paths placeable calibration failed")
    loop = {}
    loop["x"] = loop
    if rp.is_finite_tree(loop) or not rp.is_finite_tree({"a": [{}], "b": [{}]}):
        raise HarnessError("is_finite_tree calibration failed")


# ------------------------------------------------------------------ campaign
def exhaustive_shard(k, seed, tier, nshards=1, depth=2):
    camp = Campaign(PID, rule=RULE, tier=tier, seed=seed)
    docs = docs_depth(depth)
    paths2 = all_paths(2)
    paths3 = [p for p in all_paths(3) if len(p) == 3]
    results = [5, {"r": [1]}, [], None]
    n = 0
    for di, doc in enumerate(docs):
        if di % nshards != k:
            continue
        # reads: every path up to length 2; length 3 for a stride of documents
        plist = paths2 + (paths3 if (di // nshards + seed) % 7 == 0 else [])
        for steps in plist:
            if not steps:
                continue
            fails = check_read(copy.deepcopy(doc), steps)
            _feed(camp, {"kind": "read", "doc": doc, "steps": steps}, fails, len(steps) >= 2,
                  ["read", "read-hit" if rp.exists(doc, steps) else "read-miss", "len%d" % len(steps)])
        fails = check_root_null_context(copy.deepcopy(doc), {"a": 1})
        _feed(camp, {"kind": "root", "doc": doc}, fails, False, ["root/null"])
        if isinstance(doc, dict) and (di // nshards + seed) % 3 == 0:
            for steps in paths2[1:]:
                fails = check_context_read(copy.deepcopy(doc), steps, {"a": "INPUT", "b c": "INPUT", "k-1": "INPUT"})
                _feed(camp, {"kind": "context", "doc": doc, "steps": steps, "other": {"a": "INPUT"}}, fails, len(steps) >= 2, ["context-read"])
        # puts: a stride of documents x all paths <= 2 (+ some of length 3) x results
        if (di // nshards + seed) % 5 == 0 or di < 200:
            neg = [["a", -1], [-1], ["b c", -2], [0, -1]] if di % 4 == 0 else []
            for steps in paths2[1:] + (paths3[:: 9] if di % 11 == 0 else []) + neg:
                for r in results[: 2 if di >= 200 else 4]:
                    fails = check_put(doc, steps, "fresh", r)
                    _feed(camp, {"kind": "put", "doc": doc, "steps": steps, "result_kind": "fresh", "fresh": r},
                          fails, len(steps) >= 2, ["put", "put-fresh", "verdict-%s" % rp.placeable(doc, steps)])
                if isinstance(doc, (dict, list)):
                    fails = check_put(doc, steps, "self")
                    _feed(camp, {"kind": "put", "doc": doc, "steps": steps, "result_kind": "self"}, fails, True,
                          ["put", "put-alias-self", "verdict-%s" % rp.placeable(doc, steps)])
                    for sp in subtree_paths(doc)[:3]:
                        fails = check_put(doc, steps, ("sub", sp))
                        _feed(camp, {"kind": "put", "doc": doc, "steps": steps, "result_kind": ["sub", sp]}, fails, True,
                              ["put", "put-alias-sub", "verdict-%s" % rp.placeable(doc, steps)])
            for r in results:
                fails = check_put_root_null(doc, r)
                _feed(camp, {"kind": "put-root", "doc": doc, "result": r}, fails, False, ["put-root/null"])
        n += 1
    camp.extra["documents_enumerated"] = n
    return camp.export()


def random_shard(k, seed, tier, examples=2000):
    import hypothesis
    from hypothesis import given, settings, strategies as st, HealthCheck, Phase
    camp = Campaign(PID, rule=RULE, tier=tier, seed=seed)
    leaves = st.sampled_from([0, 1, -1, 1.5, "", "a", "b", None, True, False])
    keys = st.sampled_from(KEYS + ["b", "A", "_x9"])
    docs = st.recursive(leaves | st.just([]) | st.just({}),
                        lambda ch: st.lists(ch, max_size=4) | st.dictionaries(keys, ch, max_size=4), max_leaves=24)
    steps = st.lists(st.sampled_from(KEYS + ["b", "A", "_x9", 0, 1, 2, 3]), min_size=1, max_size=5)

    @st.composite
    def case(draw):
        doc = draw(docs)
        # half of the paths are built to exist in the document
        if draw(st.booleans()):
            p, cur = [], doc
            for _ in range(draw(st.integers(1, 5))):
                if isinstance(cur, dict) and cur:
                    s = draw(st.sampled_from(sorted(cur.keys())))
                elif isinstance(cur, list) and cur:
                    s = draw(st.integers(0, len(cur) - 1))
                else:
                    break
                p.append(s)
                cur = cur[s]
            if draw(st.booleans()):
                p.append(draw(st.sampled_from(KEYS + [0, 7])))
            path = p or draw(steps)
        else:
            path = draw(steps)
        kind = draw(st.sampled_from(["read", "put-fresh", "put-self", "put-sub", "context", "root"]))
        fresh = draw(docs)
        return doc, path, kind, fresh

    @hypothesis.seed(seed)
    @settings(max_examples=examples, deadline=None, database=None, derandomize=False,
              suppress_health_check=list(HealthCheck), phases=[Phase.generate])
    @given(case())
    def run(c):
        doc, steps_, kind, fresh = c
        nt = len(steps_) >= 2
        if kind == "read":
            _feed(camp, {"kind": "read", "doc": doc, "steps": steps_}, check_read(copy.deepcopy(doc), steps_), nt,
                  ["read", "read-hit" if rp.exists(doc, steps_) else "read-miss"])
        elif kind == "root":
            _feed(camp, {"kind": "root", "doc": doc}, check_root_null_context(copy.deepcopy(doc), {"a": 1}), False, ["root/null"])
            _feed(camp, {"kind": "put-root", "doc": doc, "result": fresh}, check_put_root_null(doc, fresh), False, ["put-root/null"])
        elif kind == "context":
            if isinstance(doc, dict):
                _feed(camp, {"kind": "context", "doc": doc, "steps": steps_, "other": fresh}, check_context_read(copy.deepcopy(doc), steps_, fresh), nt, ["context-read"])
        elif kind == "put-fresh":
            _feed(camp, {"kind": "put", "doc": doc, "steps": steps_, "result_kind": "fresh", "fresh": fresh},
                  check_put(doc, steps_, "fresh", fresh), nt, ["put", "put-fresh", "verdict-%s" % rp.placeable(doc, steps_)])
        elif kind == "put-self":
            if isinstance(doc, (dict, list)):
                _feed(camp, {"kind": "put", "doc": doc, "steps": steps_, "result_kind": "self"}, check_put(doc, steps_, "self"), True,
                      ["put", "put-alias-self", "verdict-%s" % rp.placeable(doc, steps_)])
        elif kind == "put-sub":
            sps = subtree_paths(doc) if isinstance(doc, (dict, list)) else []
            if sps:
                sp = sps[len(steps_) % len(sps)]
                _feed(camp, {"kind": "put", "doc": doc, "steps": steps_, "result_kind": ["sub", sp]}, check_put(doc, steps_, ("sub", sp)), True,
                      ["put", "put-alias-sub", "verdict-%s" % rp.placeable(doc, steps_)])

    run()
    return camp.export()


def main(tier, seed, replay=None):
    camp = Campaign(PID, rule=RULE, tier=tier, seed=seed)
    camp.assumptions = [
        "paths are restricted to the definite Reference Path grammar of lsfverif/ref/paths.py; keys contain no quote, backslash or dot",
        "a JSON null on the way of a ResultPath is treated as ambiguous: either ResultPathMatchFailure or a correct placement is accepted",
        "reference semantics (lsfverif.ref.paths) are trusted after calibration against the Goessner examples quoted in the repo's tests",
    ]
    try:
        calibrate()
        repo()
    except HarnessError as e:
        camp.harness_error(e)
        return camp.finish()
    if replay:
        with open(replay) as fp:
            rec = json.load(fp)
        for b, d in replay_case(rec["case"]):
            camp.fail(b, rec["case"], d)
        camp.case(rec["case"], True)
        camp.min_nontrivial = 0
        camp.write_evidence = False
        return camp.finish()
    camp.run_witnesses(replay_case)
    if tier == "thorough":
        run_shards(camp, __name__, "exhaustive_shard", 16, nshards=16, depth=2)
        run_shards(camp, __name__, "random_shard", 16, examples=12000)
        camp.exhaustive = False
    else:
        run_shards(camp, __name__, "exhaustive_shard", 8, nshards=8, depth=2)
        run_shards(camp, __name__, "random_shard", 4, examples=1500)
        camp.exhaustive = False
    camp.extra["exhaustive_subdomain"] = ("reads: every document of depth<=2/width<=2 over the stated alphabet x every path of length<=2 "
                                          "(both renderings) is enumerated completely; longer paths and placements are strided samples")
    return camp.finish()
