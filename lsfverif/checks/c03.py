"""
C03 - events are acked once, after their consequences are issued; nothing leaks.
AckMonitor over the broker operation log of generated machines x generated schedules.
"""
from . import _monitored as mon
from .. import sched as S

PID = "C03"
RULE = ("cases = (machine from the SEQ / PAR_OK / PAR_FAIL1 families, 1-3 concurrent executions, schedule). The simulated broker logs every operation with its "
        "handler context; the monitor checks (a) every delivery to an engine consumer is acknowledged exactly once and no unknown/duplicate tag is acknowledged, "
        "(b) after the ack of an event message no event / notification publish attributable to its handling (its own handler, the timers it armed, the reply to its "
        "task request) occurs, (c) between handler invocations every RUNNING execution has a carrier (queued/unacked event, outstanding request, pending reply or "
        "armed timer), (d) at quiescence nothing is unacknowledged or queued and the engine's per-execution dictionaries and timers are empty. "
        "Non-trivial = the case contains a join or a Task/Wait (an acknowledgement deferred across callbacks). Distinct by canonical JSON.")
CFG = dict(S.CFG_SCHED, fanout_handlers=False)


def nontrivial(case, sched, starts, info):
    return any(f in case.get("features", []) for f in ("Parallel", "Map", "Wait", "task-value", "task-error", "task-error-then-ok")) or "Task" in str(case["definition"])


def variants():
    from hypothesis import strategies as st
    # a worker that answers every request twice (the second reply is an orphan and must still be acknowledged once)
    return st.sampled_from([{}, {}, {}, {"dup_replies": 0.5}, {"past_expiry": 40}])


mon.SPECS[PID] = mon.Spec(PID, ("ack", "exceptions"), RULE, [
    "the carrier invariant is evaluated between handler invocations (after every scheduler step), the ordering clause on every broker operation inside the handlers",
    "orphaned_response_retention_ms is set to 3 s so that replies to cancelled tasks are released within the run (production default: 10 min)",
    "attribution of a publish to an event = same handler context (delivery, timers armed in it, reply correlated to its task request); publishes that cannot be attributed are not asserted",
], cfg=CFG, nontrivial=nontrivial, variants=variants)


def main(tier, seed, replay=None):
    return mon.main(PID, tier, seed, replay)
