"""
C16 - service quotas are enforced at the exact boundary.

For every place a limit applies, the window L-2..L+2 is enumerated completely and
sizes far below / above are drawn by Hypothesis.  A payload of exactly n characters
is built so that its JSON text is the same whichever serialiser writes it (ASCII
strings, and objects/arrays in json.dumps' default spacing), the real engine runs the
scenario on the simulated broker, and the oracle is the sentence of the property:
size <= L is accepted (and the value comes back unchanged), size > L is refused with
the documented error.
"""
import json, traceback

from .. import env
from ..runner import Campaign, HarnessError, run_shards

PID = "C16"
L_DATA = 262144
L_DEF = 1048576
L_HIST = 25000
RULE = ("case = (place a limit applies, size) with size in {L-2..L+2} for every place (complete enumeration) plus Hypothesis-drawn sizes far below and above; places: "
        "StartExecution input (string and object payload), StartSyncExecution input, SendTaskSuccess output, task reply, Pass output (non-terminal, terminal), "
        "Parallel output, Map output (non-terminal, terminal), Task ResultSelector output, definition (Create, Update), state machine / execution names (lengths and every forbidden character), "
        "history length. Non-trivial = |size - L| <= 2 (names: length 79..82 or a forbidden character). Distinct by (place, size).")

DATA_PLACES = ["api_start", "api_start_obj", "api_sync", "callback", "task_reply", "task_reply_compact_discarded", "task_reply_padded_discarded", "task_reply_multibyte_discarded", "pass_nonterminal", "pass_terminal", "task_selector_terminal", "parallel_nonterminal",
               "parallel_terminal", "map_nonterminal", "map_terminal", "map_inner_terminal_discarded", "parallel_inner_terminal_discarded", "map_inner_terminal_selected"]
DEF_PLACES = ["def_create", "def_update"]
FORBIDDEN = " <>{}[]?*\"#%\\^|~`$&,;:/"
ALLOWED_PUNCT = "-_.+=@!'()"


def S(n):
    """A Python string whose JSON text has exactly n characters."""
    if n < 2:
        raise ValueError
    return "a" * (n - 2)


def quiet(horizon):
    def until(w):
        b = w.broker
        if b.pending_returns or w.pushed or b.deliverable() or b.due_timers():
            return False
        return not [t for t in b.live_timers() if not w.is_heartbeat(t) and t.deadline - w.clock.now <= horizon]
    return until


def outcome_of(w, arn):
    d = w.terminal(arn)
    if d is None:
        return None
    return d


def expect_execution(fails, place, size, limit, w, arn, want_output=None):
    d = outcome_of(w, arn)
    if d is None:
        fails.append(("%s:execution-never-ended:%s" % (place, rel(size, limit)), "size %d" % size))
        return
    if size <= limit:
        if d["status"] != "SUCCEEDED":
            fails.append(("%s:refused-within-limit:%s" % (place, rel(size, limit)), "size %d (limit %d): ended %s %s" % (size, limit, d["status"], d.get("error"))))
        elif want_output is not None and json.loads(d["output"]) != want_output:
            fails.append(("%s:value-changed:%s" % (place, rel(size, limit)), "size %d: the output is not the value that was supplied" % size))
        elif len(d["output"]) > limit:
            fails.append(("%s:oversize-output-accepted:%s" % (place, rel(size, limit)), "reported output has %d characters" % len(d["output"])))
    else:
        if d["status"] != "FAILED" or d.get("error") != "States.DataLimitExceeded":
            fails.append(("%s:oversize-not-DataLimitExceeded:%s" % (place, rel(size, limit)), "size %d (limit %d): ended %s %s" % (size, limit, d["status"], d.get("error"))))


def rel(size, limit):
    d = size - limit
    return "L%+d" % d if abs(d) <= 2 else ("far-below" if d < 0 else "far-above")


def T(fn, W, **kw):
    return dict({"Type": "Task", "Resource": W.fn_arn(fn)}, **kw)


def run_data(place, size):
    from .. import world as W
    fails = []
    Lm = L_DATA
    w = W.World(seed=16, tick=0.0)
    w.eager_time = False
    try:
        eng = w.add_engine("A")
        PASS = {"StartAt": "P", "States": {"P": {"Type": "Pass", "End": True}}}
        if place in ("api_start", "api_start_obj"):
            w.create_state_machine("m", PASS)
            if place == "api_start":
                value = S(size)
            else:
                value = {"k": S(size - 7)}          # {"k": "aaa"}  -> 7 more characters
            text = json.dumps(value)
            if len(text) != size:
                raise HarnessError("payload construction: %d != %d" % (len(text), size))
            st, r = w.start_execution(W.sm_arn("m"), raw_input=text, name="e")
            if size <= Lm:
                if st != 200:
                    fails.append(("%s:refused-within-limit:%s" % (place, rel(size, Lm)), "size %d -> %s %r" % (size, st, r)))
                else:
                    w.run((), max_steps=500, until=quiet(50))
                    expect_execution(fails, place, size, Lm, w, r["executionArn"], value)
                    st2, d = w.describe_execution(r["executionArn"])
                    if st2 != 200 or json.loads(d["input"]) != value:
                        fails.append(("%s:value-changed:%s" % (place, rel(size, Lm)), "DescribeExecution.input differs from the supplied input"))
            else:
                if st != 400 or not isinstance(r, dict) or r.get("__type") != "InvalidExecutionInput":
                    fails.append(("%s:oversize-not-refused:%s" % (place, rel(size, Lm)), "size %d -> %s %r" % (size, st, str(r)[:200])))
                if w.broker.deliverable():
                    fails.append(("%s:oversize-still-published:%s" % (place, rel(size, Lm)), "a start event was published for a refused input"))
        elif place == "api_sync":
            w.create_state_machine("m", PASS, type_="EXPRESS")
            value = S(size)
            t = eng.api_task("StartSyncExecution", {"stateMachineArn": W.sm_arn("m"), "input": json.dumps(value), "name": "e"})
            w.api_tasks.append(t)
            W.spin(5)
            w.run((), max_steps=500, until=quiet(50))
            W.spin(5)
            if not t.done():
                fails.append(("api_sync:no-answer:%s" % rel(size, Lm), "StartSyncExecution did not answer"))
            else:
                st, r = t.result()
                if size <= Lm:
                    ok = st == 200 and isinstance(r, dict) and r.get("status") == "SUCCEEDED" and json.loads(r.get("output") or "null") == value
                    if not ok:
                        fails.append(("api_sync:refused-within-limit:%s" % rel(size, Lm), "size %d -> %s %s" % (size, st, str(r)[:200])))
                elif st != 400 or not isinstance(r, dict) or r.get("__type") != "InvalidExecutionInput":
                    fails.append(("api_sync:oversize-not-refused:%s" % rel(size, Lm), "size %d -> %s %s" % (size, st, str(r)[:200])))
        elif place == "callback":
            tokens = []
            w.add_worker("tok", lambda i, p, props: (tokens.append(p["token"]), [])[1])
            w.create_state_machine("m", {"StartAt": "T", "States": {"T": {"Type": "Task", "Resource": "arn:aws:states:local::rpcmessage:invoke.waitForTaskToken", "End": True,
                                                                          "Parameters": {"FunctionName": W.fn_arn("tok"), "Payload": {"token.$": "$$.Task.Token"}}}}})
            st, r = w.start_execution(W.sm_arn("m"), {}, name="e")
            w.run((), max_steps=500, until=quiet(50))
            if not tokens:
                raise HarnessError("no token received")
            value = S(size)
            st2, r2 = eng.api("SendTaskSuccess", {"taskToken": tokens[0], "output": json.dumps(value)})
            w.run((), max_steps=500, until=quiet(50))
            if size <= Lm:
                if st2 != 200:
                    fails.append(("callback:refused-within-limit:%s" % rel(size, Lm), "size %d -> %s %r" % (size, st2, r2)))
                else:
                    expect_execution(fails, place, size, Lm, w, r["executionArn"], value)
            else:
                if st2 != 400 or not isinstance(r2, dict) or r2.get("__type") != "InvalidOutput":
                    fails.append(("callback:oversize-not-refused:%s" % rel(size, Lm), "size %d -> %s %s" % (size, st2, str(r2)[:200])))
                if w.terminal(r["executionArn"]) is not None:
                    fails.append(("callback:refused-output-had-effect:%s" % rel(size, Lm), "the task completed although the output was refused"))
        else:
            value = None
            inp = {}
            if place == "task_reply":
                value = S(size)
                w.add_worker("f", lambda i, p, props: [(0, W.Raw(json.dumps(value)))])
                definition = {"StartAt": "T", "States": {"T": T("f", W, End=True)}}
                want = value
            elif place in ("task_reply_compact_discarded", "task_reply_padded_discarded", "task_reply_multibyte_discarded"):
                # the reply text is not in json.dumps' default spacing, so the text the worker sent and a re-serialised copy differ in length; the Task discards
                # the result (ResultPath null), so that only the reply itself is subject to the quota
                if place == "task_reply_compact_discarded":
                    k = size - len('{"a":"","b":[1,2,3],"c":{"d":null}}')
                    text = '{"a":"%s","b":[1,2,3],"c":{"d":null}}' % ("a" * k)
                elif place == "task_reply_multibyte_discarded":
                    # the reply is UTF-8 text with characters of two and three bytes: it has `size` characters and more bytes than that
                    k = size - len('{"a":"","b":"é€"}')
                    m = min(500, k // 2)
                    text = '{"a":"%s","b":"é€"}' % ("é" * m + "€" * m + "a" * (k - 2 * m))
                else:
                    core = '{ "a" : [ 1 , 2 ] ,\n  "b" : "%s" }' % ("b" * min(1000, max(0, size - 40)))
                    text = core + " " * (size - len(core) - 1) + "\n"
                if len(text) != size or json.loads(text) is None:
                    raise HarnessError("reply text construction for %s" % place)
                w.add_worker("f", lambda i, p, props: [(0, W.Raw(text))])
                definition = {"StartAt": "T", "States": {"T": T("f", W, ResultPath=None, End=True)}}
                want = {}
            elif place in ("pass_nonterminal", "pass_terminal"):
                inp = S(size - 7)
                st_ = {"Type": "Pass", "Parameters": {"w.$": "$"}}
                want = {"w": inp}
                if place == "pass_terminal":
                    definition = {"StartAt": "P", "States": {"P": dict(st_, End=True)}}
                else:
                    definition = {"StartAt": "P", "States": {"P": dict(st_, Next="Q"), "Q": {"Type": "Pass", "End": True}}}
            elif place == "task_selector_terminal":
                small = S(size - 7)
                w.add_worker("f", lambda i, p, props: [(0, small)])
                definition = {"StartAt": "T", "States": {"T": T("f", W, ResultSelector={"w.$": "$"}, End=True)}}
                want = {"w": small}
            elif place in ("parallel_nonterminal", "parallel_terminal"):
                inp = S(size - 5)       # ["aaa", 0]
                par = {"Type": "Parallel", "Branches": [{"StartAt": "A", "States": {"A": {"Type": "Pass", "End": True}}},
                                                        {"StartAt": "B", "States": {"B": {"Type": "Pass", "Result": 0, "End": True}}}]}
                want = [inp, 0]
                if place == "parallel_terminal":
                    definition = {"StartAt": "X", "States": {"X": dict(par, End=True)}}
                else:
                    definition = {"StartAt": "X", "States": {"X": dict(par, Next="Q"), "Q": {"Type": "Pass", "End": True}}}
            elif place in ("map_nonterminal", "map_terminal"):
                # [{"w": S, "v": S}] has 2|S|+16 characters, [{"w": S, "vv": S}] has 2|S|+17
                odd = (size - 16) % 2
                key = "vv" if odd else "v"
                n = (size - 16 - odd) // 2
                item = S(n)
                inp = {"items": [item]}
                mp = {"Type": "Map", "ItemsPath": "$.items", "ItemProcessor": {"StartAt": "I", "States": {"I": {"Type": "Pass", "Parameters": {"w.$": "$", key + ".$": "$"}, "End": True}}}}
                want = [{"w": item, key: item}]
                if place == "map_terminal":
                    definition = {"StartAt": "X", "States": {"X": dict(mp, End=True)}}
                else:
                    definition = {"StartAt": "X", "States": {"X": dict(mp, Next="Q"), "Q": {"Type": "Pass", "End": True}}}
            elif place in ("map_inner_terminal_discarded", "parallel_inner_terminal_discarded", "map_inner_terminal_selected"):
                # the output of the last state of an iteration / a branch is a state output of its own: the enclosing state does not hand the results on in full
                # (ResultPath null, or a ResultSelector that reduces them), so only the inner state's output is near the limit
                odd = (size - 14) % 2
                key = "vv" if odd else "v"
                item = S((size - 14 - odd) // 2)
                inner = {"Type": "Pass", "Parameters": {"w.$": "$", key + ".$": "$"}, "End": True}
                if len(json.dumps({"w": item, key: item})) != size:
                    raise HarnessError("inner output construction for %s" % place)
                if place.startswith("map"):
                    inp = {"items": [item, "small"]}
                    fan = {"Type": "Map", "ItemsPath": "$.items", "ItemProcessor": {"StartAt": "I", "States": {"I": inner}}}
                else:
                    inp = item
                    fan = {"Type": "Parallel", "Branches": [{"StartAt": "I", "States": {"I": inner}}, {"StartAt": "B", "States": {"B": {"Type": "Pass", "Result": 0, "End": True}}}]}
                if place.endswith("_selected"):
                    fan["ResultSelector"] = {"n.$": "States.ArrayLength($)"}
                    want = {"n": 2}
                else:
                    fan["ResultPath"] = None
                    want = inp
                definition = {"StartAt": "X", "States": {"X": dict(fan, Next="Q"), "Q": {"Type": "Pass", "End": True}}}
            else:
                raise HarnessError("unknown place %r" % place)
            if not (place.endswith("_discarded") or place.endswith("_selected")) and len(json.dumps(want)) != size:
                raise HarnessError("payload construction for %s: %d != %d" % (place, len(json.dumps(want)), size))
            if len(json.dumps(inp)) > Lm:
                if place.endswith(("_discarded", "_selected")) and size > 2 * Lm - 100:
                    return []       # (an inner output more than twice the limit would need an input that is itself over it: not a case of this place)
                raise HarnessError("input itself over the limit")
            st, r = w.create_state_machine("m", definition)
            if st != 200:
                raise HarnessError("machine refused %r" % (r,))
            st, r = w.start_execution(W.sm_arn("m"), inp, name="e")
            if st != 200:
                raise HarnessError("start refused %r" % (r,))
            w.run((), max_steps=800, until=quiet(50))
            expect_execution(fails, place, size, Lm, w, r["executionArn"], want)
        for e in w.engine_exceptions:
            fails.append(("engine-callback-exception:%s:%s" % (e["type"], e["where"]), json.dumps(e)))
    finally:
        w.close()
    return fails


def definition_of_length(n, marker="x"):
    base = {"Comment": "", "StartAt": "P", "States": {"P": {"Type": "Pass", "End": True}}}
    k = n - len(json.dumps(base))
    if k < 0:
        raise ValueError
    base["Comment"] = marker * k
    text = json.dumps(base)
    assert len(text) == n
    return text


def definition_dense(n):
    """A definition of exactly n characters most of which have to be escaped again (or are multi-byte) in the JSON request body: the body is far longer than the definition."""
    base = {"Comment": "", "StartAt": "P", "States": {"P": {"Type": "Pass", "End": True}}}
    k = n - len(json.dumps(base))
    a = (k - 3000) // 4          # quotes and backslashes: two characters each in the definition text, four in the request body
    comment = ('"' * a) + ("\\" * a) + ("\u00e9" * 1000) + ("\n" * 500)
    base["Comment"] = comment
    rest = n - len(json.dumps(base, ensure_ascii=False))
    if rest < 0:
        raise ValueError
    base["Comment"] = comment + "x" * rest
    text = json.dumps(base, ensure_ascii=False)
    assert len(text) == n, (len(text), n)
    return text


def run_definition(place, size, dense=False):
    from .. import world as W
    fails = []
    w = W.World(seed=16, tick=0.001)
    try:
        eng = w.add_engine("A")
        text = definition_dense(size) if dense else definition_of_length(size)
        if dense:
            if len(json.dumps({"definition": text})) < size + 300000:
                raise HarnessError("dense definition is not dense")
        tag = place + ("_dense" if dense else "")
        if place == "def_create":
            st, r = w.create_state_machine("m", text)
            target = "m"
        else:
            st0, r0 = w.create_state_machine("m", definition_of_length(200, "y"))
            if st0 != 200:
                raise HarnessError("base machine refused")
            st, r = eng.api("UpdateStateMachine", {"stateMachineArn": W.sm_arn("m"), "definition": text})
        if size <= L_DEF:
            if st != 200:
                fails.append(("%s:refused-within-limit:%s" % (tag, rel(size, L_DEF)), "size %d -> %s %s" % (size, st, str(r)[:200])))
            else:
                st2, d = eng.api("DescribeStateMachine", {"stateMachineArn": W.sm_arn("m")})
                if st2 != 200 or json.loads(d["definition"]) != json.loads(text):
                    fails.append(("%s:value-changed:%s" % (tag, rel(size, L_DEF)), "the definition is not described back unchanged"))
        else:
            if st != 400 or not isinstance(r, dict) or r.get("__type") != "InvalidDefinition":
                fails.append(("%s:oversize-not-refused:%s" % (tag, rel(size, L_DEF)), "size %d -> %s %s" % (size, st, str(r)[:200])))
            st2, d = eng.api("DescribeStateMachine", {"stateMachineArn": W.sm_arn("m")})
            if place == "def_create" and st2 == 200:
                fails.append(("%s:oversize-stored:%s" % (tag, rel(size, L_DEF)), "the refused definition was stored"))
            if place == "def_update" and (st2 != 200 or "yyy" not in d["definition"]):
                fails.append(("%s:oversize-stored:%s" % (tag, rel(size, L_DEF)), "the refused update changed the stored definition"))
    finally:
        w.close()
    return fails


def run_empty_definition():
    from .. import world as W
    fails = []
    w = W.World(seed=16, tick=0.001)
    try:
        eng = w.add_engine("A")
        st, r = w.create_state_machine("m", "")
        if st != 400 or not isinstance(r, dict) or r.get("__type") not in ("InvalidDefinition", "MissingRequiredParameter"):
            fails.append(("def_create:empty-not-refused", "%s %r" % (st, r)))
    finally:
        w.close()
    return fails


def run_names(names):
    """names: list of (label, name); expected validity from the property (1..80 characters, none forbidden)."""
    from .. import world as W
    fails = []
    w = W.World(seed=16, tick=0.001)
    try:
        eng = w.add_engine("A")
        w.create_state_machine("host", {"StartAt": "P", "States": {"P": {"Type": "Pass", "End": True}}})
        for label, name in names:
            valid = 1 <= len(name) <= 80 and not (set(name) & set(FORBIDDEN)) and not any(ord(ch) < 32 or 127 <= ord(ch) < 160 for ch in name)
            st, r = w.create_state_machine(name, {"StartAt": "P", "States": {"P": {"Type": "Pass", "End": True}}})
            st2, r2 = w.start_execution(W.sm_arn("host"), {}, name=name)
            for what, s_, r_ in (("machine", st, r), ("execution", st2, r2)):
                if valid and s_ != 200:
                    fails.append(("name:valid-refused:%s:%s" % (what, label), "%r -> %s %r" % (name, s_, r_)))
                if not valid and (s_ != 400 or not isinstance(r_, dict) or r_.get("__type") != "InvalidName"):
                    fails.append(("name:invalid-not-refused:%s:%s" % (what, label), "%r -> %s %s" % (name, s_, str(r_)[:150])))
            w.run((), max_steps=200, until=quiet(50))
    finally:
        w.close()
    return fails


HISTORY_SHAPES = {
    # name -> (definition, input, workers, steps needed per history event (upper bound))
    "pass-loop": ({"StartAt": "A", "States": {"A": {"Type": "Pass", "Next": "B"}, "B": {"Type": "Pass", "Next": "A"}}}, {}, 1),
    "choice-loop": ({"StartAt": "A", "States": {"A": {"Type": "Choice", "Choices": [{"Variable": "$.go", "BooleanEquals": True, "Next": "B"}], "Default": "B"}, "B": {"Type": "Pass", "Next": "A"}}}, {"go": True}, 1),
    "task-loop": ({"StartAt": "A", "States": {"A": {"Type": "Task", "Resource": "arn:aws:rpcmessage:local::function:echo", "Next": "A"}}}, {}, 2),
    # the history grows while one state is being retried: no state is entered between the attempts
    "task-retry": ({"StartAt": "A", "States": {"A": {"Type": "Task", "Resource": "arn:aws:rpcmessage:local::function:boom", "Retry": [{"ErrorEquals": ["States.ALL"], "IntervalSeconds": 1, "BackoffRate": 1.0,
                                                                                                                                       "MaxAttempts": 1000000}], "End": True}}}, {}, 3),
    "parallel-retry": ({"StartAt": "P", "States": {"P": {"Type": "Parallel", "Branches": [{"StartAt": "X", "States": {"X": {"Type": "Fail", "Error": "E"}}}],
                                                        "Retry": [{"ErrorEquals": ["States.ALL"], "IntervalSeconds": 1, "BackoffRate": 1.0, "MaxAttempts": 1000000}], "End": True}}}, {}, 3),
    # the history limit error itself must not be caught: a state that catches everything and loops
    "catch-loop": ({"StartAt": "A", "States": {"A": {"Type": "Task", "Resource": "arn:aws:rpcmessage:local::function:boom", "Catch": [{"ErrorEquals": ["States.ALL"], "Next": "A"}], "End": True}}}, {}, 3),
    # a small Map with MaxConcurrency 1 (re-entered for every block) inside a loop
    "map-loop": ({"StartAt": "M", "States": {"M": {"Type": "Map", "ItemsPath": "$.items", "MaxConcurrency": 1, "Iterator": {"StartAt": "I", "States": {"I": {"Type": "Pass", "End": True}}}, "ResultPath": "$.r", "Next": "M"}}},
                 {"items": [1, 2, 3, 4, 5]}, 3),
    "wait-loop": ({"StartAt": "A", "States": {"A": {"Type": "Wait", "Seconds": 1, "Next": "A"}}}, {}, 3),
}


def run_history(shape="pass-loop", slack=60):
    """A machine whose history grows for ever must be failed once it passes 25000 events - however it grows (new states, retries of one state, blocks of one Map)."""
    from .. import world as W
    fails = []
    w = W.World(seed=16, tick=0.0)
    w.eager_time = True
    try:
        eng = w.add_engine("A")
        w.add_worker("echo", lambda i, p, props: [(0, p)])
        w.add_worker("boom", lambda i, p, props: [(0, {"errorType": "Boom", "errorMessage": "b"})])
        definition, input_value, cost = HISTORY_SHAPES[shape]
        st, r = w.create_state_machine("grow", definition)
        if st != 200:
            raise HarnessError("history machine refused: %r" % (r,))
        st, r = w.start_execution(W.sm_arn("grow"), input_value, name="e")
        arn = r["executionArn"]
        hist = lambda: eng.state_engine.execution_history.get(arn, [])
        # run until the execution ends or its history is clearly past the limit
        res = w.run((), max_steps=(L_HIST + 4 * slack) * cost * 3, until=lambda w_: w_.terminal(arn) is not None or len(hist()) > L_HIST + 4 * slack)
        d = w.terminal(arn)
        n = len(hist())
        if d is None:
            fails.append(("history:not-failed-past-limit:" + shape, "after %d steps the execution is still running with %d history events" % (w.steps, n)))
        else:
            if d["status"] != "FAILED":
                fails.append(("history:wrong-status:" + shape, repr(d["status"])))
            if n <= L_HIST:
                fails.append(("history:failed-within-limit:" + shape, "failed with %d events (limit %d): %r" % (n, L_HIST, d.get("error"))))
            if n > L_HIST + slack:
                fails.append(("history:grew-far-past-limit:" + shape, "%d events" % n))
            # the failure itself is on record: the history ends with the ExecutionFailed event that DescribeExecution reports (the quota must not cut the log short of it)
            last = hist()[-1] if n else {}
            if last.get("type") != "ExecutionFailed" or (last.get("executionFailedEventDetails") or {}).get("error") != d.get("error"):
                fails.append(("history:terminal-event-missing:" + shape, "execution FAILED with %r but the last of %d history events is %s %r" % (d.get("error"), n, last.get("type"), last.get("executionFailedEventDetails"))))
    finally:
        w.close()
    return fails


def run_history_within(n_states=200):
    """An execution that stays under the limit is not failed for its history."""
    from .. import world as W
    fails = []
    w = W.World(seed=16, tick=0.0)
    try:
        eng = w.add_engine("A")
        states = {"S%d" % i: {"Type": "Pass", "Next": "S%d" % (i + 1)} for i in range(n_states)}
        states["S%d" % n_states] = {"Type": "Succeed"}
        w.create_state_machine("long", {"StartAt": "S0", "States": states})
        st, r = w.start_execution(W.sm_arn("long"), {}, name="e")
        w.run((), max_steps=n_states * 3 + 100, until=quiet(50))
        d = w.terminal(r["executionArn"])
        if d is None or d["status"] != "SUCCEEDED":
            fails.append(("history:failed-within-limit", "a %d-state execution ended %r" % (n_states, d and d["status"])))
    finally:
        w.close()
    return fails


# ------------------------------------------------------------------ scenarios
def run_scenario(sc):
    k = sc["kind"]
    if k == "data":
        return run_data(sc["place"], sc["size"])
    if k == "definition":
        return run_definition(sc["place"], sc["size"], dense=bool(sc.get("dense")))
    if k == "empty-definition":
        return run_empty_definition()
    if k == "names":
        return run_names([tuple(x) for x in sc["names"]])
    if k == "history":
        return run_history(sc.get("shape", "pass-loop"))
    if k == "history-within":
        return run_history_within(sc.get("n", 200))
    raise HarnessError("unknown scenario %r" % (sc,))


def window_scenarios():
    out = []
    for p in DATA_PLACES:
        for d in (-2, -1, 0, 1, 2):
            out.append({"kind": "data", "place": p, "size": L_DATA + d})
    for p in DEF_PLACES:
        for d in (-2, -1, 0, 1, 2):
            out.append({"kind": "definition", "place": p, "size": L_DEF + d})
        for d in (-1, 0, 1):
            out.append({"kind": "definition", "place": p, "size": L_DEF + d, "dense": True})
    out.append({"kind": "empty-definition"})
    names = [("len%d" % n, "n" * n) for n in (1, 2, 79, 80, 81, 82, 200)]
    names += [("forbidden-%02x" % ord(c), "a" + c + "b") for c in FORBIDDEN]
    names += [("allowed-%02x" % ord(c), "a" + c + "b") for c in ALLOWED_PUNCT]
    names += [("len80-with-dot", "n" * 79 + "."), ("len81-forbidden", "n" * 80 + "*")]
    # a line break (or another control character) in last position: 80 legal characters followed by it are 81 characters, over the limit whatever one thinks of the character;
    # shorter ones are refused for the character (the API reference excludes U+0000-001F and U+007F-009F; C17 enumerates these completely for short names)
    names += [("len81-trailing-%02x" % ord(c), "n" * 80 + c) for c in "\n\r\t\x00\x7f"] + [("len82-trailing-0a", "n" * 81 + "\n"), ("len161-trailing-0a", "n" * 160 + "\n")]
    names += [("control-%02x-%s" % (ord(c), pos), nm) for c in "\n\r\x1f" for pos, nm in (("last", "ab" + c), ("first", c + "ab"), ("middle", "a" + c + "b"), ("last-len80", "n" * 79 + c))]
    for i in range(0, len(names), 12):
        out.append({"kind": "names", "names": names[i:i + 12]})
    out.append({"kind": "history-within", "n": 200})
    return out


def run_list(k, seed, tier, scenarios=None, nshards=1):
    camp = Campaign(PID, rule=RULE, tier=tier, seed=seed)
    # the long task-retry history scenario has shard 0 to itself
    heavy = [sc for sc in scenarios if sc.get("shape") == "task-retry"]
    rest = [sc for sc in scenarios if sc.get("shape") != "task-retry"]
    if heavy and nshards > 1:
        mine = heavy if k == 0 else [sc for i, sc in enumerate(rest) if i % (nshards - 1) == k - 1]
    else:
        mine = [sc for i, sc in enumerate(scenarios) if i % nshards == k]
    for sc in mine:
        one(camp, sc)
    return camp.export()


def one(camp, sc):
    try:
        fails = run_scenario(sc)
    except HarnessError as e:
        camp.harness_error("%s in %s" % (e, json.dumps(sc)[:300]))
        return
    except Exception as e:
        camp.harness_error("scenario %s crashed: %r %s" % (json.dumps(sc)[:300], e, traceback.format_exc()[-900:]))
        return
    if sc["kind"] in ("data", "definition"):
        lim = L_DATA if sc["kind"] == "data" else L_DEF
        nt = abs(sc["size"] - lim) <= 2
        cl = ["place-" + sc["place"], "size-" + rel(sc["size"], lim)]
    elif sc["kind"] == "names":
        nt, cl = True, ["place-names"]
    else:
        nt, cl = True, ["place-" + sc["kind"]]
    camp.case(sc, nontrivial=nt, classes=cl)
    for b, d in fails:
        camp.fail(b, sc, d)


def far_shard(k, seed, tier, examples=10):
    import hypothesis
    from hypothesis import given, settings, HealthCheck, Phase, strategies as st
    camp = Campaign(PID, rule=RULE, tier=tier, seed=seed)
    data = st.fixed_dictionaries({"kind": st.just("data"), "place": st.sampled_from(DATA_PLACES),
                                  "size": st.one_of(st.integers(40, 5000), st.integers(L_DATA // 2, L_DATA - 3), st.integers(L_DATA + 3, L_DATA + 5000), st.integers(2 * L_DATA, 3 * L_DATA))})
    def clamp(sc):
        # where the state's input is (almost) its output, the output can exceed the limit only by the wrapper's few characters
        if sc["place"] in ("pass_nonterminal", "pass_terminal", "task_selector_terminal", "parallel_nonterminal", "parallel_terminal") and sc["size"] > L_DATA + 5:
            sc = dict(sc, size=L_DATA + 3 + sc["size"] % 3)
        if sc["place"] in ("map_nonterminal", "map_terminal") and sc["size"] > 2 * L_DATA - 100:
            sc = dict(sc, size=L_DATA + 3 + sc["size"] % (L_DATA - 200))
        return sc
    data = data.map(clamp)
    defs = st.fixed_dictionaries({"kind": st.just("definition"), "place": st.sampled_from(DEF_PLACES),
                                  "size": st.one_of(st.integers(200, 5000), st.integers(L_DEF // 2, L_DEF - 3), st.integers(L_DEF + 3, L_DEF + 5000))})
    alphabet = "abcXYZ019-_." + FORBIDDEN
    names = st.lists(st.text(alphabet=alphabet, min_size=1, max_size=90), min_size=4, max_size=10).map(
        lambda l: {"kind": "names", "names": [("gen%d" % i, n) for i, n in enumerate(dict.fromkeys(l))]})

    @hypothesis.seed(seed)
    @settings(max_examples=examples, deadline=None, database=None, suppress_health_check=list(HealthCheck), phases=[Phase.generate])
    @given(st.one_of(data, data, data, defs, names))
    def run(sc):
        one(camp, sc)
    run()
    return camp.export()


def replay_case(case):
    return run_scenario(case)


def main(tier, seed, replay=None):
    camp = Campaign(PID, rule=RULE, tier=tier, seed=seed)
    camp.assumptions = [
        "a size is the number of characters of the JSON text that is sent; for values that come back out of the engine (state outputs) payloads are ASCII in json.dumps default spacing, so that the text sent and "
        "the text the engine reports coincide. Texts in another spacing are used where the value is discarded by the machine (task replies in compact and in padded form with ResultPath null), and definitions "
        "dense in characters that must be escaped again in the request body (quotes, backslashes, new lines, non-ASCII letters) are sent at L-1, L, L+1",
        "for Map/Parallel/ResultSelector places the state's input is kept far below the limit so that only the output crosses it",
        "names: validity = 1..80 characters and none of the forbidden characters listed in the AWS API reference; control characters (refused) only in the directed names: last / first / middle position and after 79..160 legal characters",
        "history: machines whose history grows for ever in seven different ways (Pass/Choice/Task/Wait loops, one Task or Parallel retried without end, one Map re-entered per MaxConcurrency block) are run until they end; "
        "'rather than growing without bound' is checked as: FAILED with more than 25000 and at most 25000+60 events",
    ]
    if replay:
        with open(replay) as fp:
            rec = json.load(fp)
        for b, d in replay_case(rec["case"]):
            camp.fail(b, rec["case"], d)
        camp.case(rec["case"], True)
        camp.min_nontrivial = 0
        camp.write_evidence = False
        return camp.finish()
    camp.run_witnesses(replay_case)
    scen = window_scenarios()
    if tier == "thorough":
        scen.extend({"kind": "history", "shape": sh} for sh in HISTORY_SHAPES)
        scen.sort(key=lambda s: 0 if s.get("shape") == "task-retry" else 1 if s["kind"] == "history" else 2)
        run_shards(camp, __name__, "run_list", 16, scenarios=scen, nshards=16)
        run_shards(camp, __name__, "far_shard", 16, examples=40)
    else:
        scen.extend({"kind": "history", "shape": sh} for sh in HISTORY_SHAPES)      # task-retry (~8000 retried attempts, 20 s) runs in a shard of its own
        scen.sort(key=lambda s: 0 if s.get("shape") == "task-retry" else 1 if s["kind"] == "history" else 2)
        run_shards(camp, __name__, "run_list", 16, scenarios=scen, nshards=16)
        run_shards(camp, __name__, "far_shard", 8, examples=6)
    camp.extra["exhaustive_subdomain"] = "the window L-2..L+2 is enumerated completely for every place in both tiers"
    return camp.finish()
