"""
C17 - names and ARNs round-trip and link executions to their state machine.

Pure  : every string up to length 3/4 over an alphabet of letters, digits and every
        ARN-significant or forbidden character (+ random strings up to 81 chars):
        if the API's validators accept the name, the state machine / execution ARNs
        minted from it must split back into the parts they were built from, rebuild
        to the same string, and the "split at the last ':'" derivation must recover
        (stateMachineArn, execution name).  Both front ends must agree on acceptance.
Engine: for accepted names, every site that derives one identifier from the other
        (StartExecution response, record, notifications, EXPRESS detail, re-creation
        after a restart, timeout backstop) must agree.
"""
import itertools, json, traceback

from .. import env
from ..runner import Campaign, HarnessError, run_shards

PID = "C17"
RULE = ("pure cases = candidate names: all strings up to length 3 (quick) / 4 (thorough) over {a B 0 9 : / . - _ space and each punctuation character the "
        "validators reject}, plus Hypothesis strings up to 81 characters incl. the 79/80/81 boundary, each used as state machine name and as execution name "
        "with partition/region/account pools; engine cases = accepted names run through CreateStateMachine + StartExecution (STANDARD, EXPRESS, restart, backstop). "
        "Non-trivial = the name contains '.', '-', '_' or an ARN-significant/forbidden character, or has length >= 79. Distinct by the name(s).")

FORBIDDEN = " <>{}[]?*\"#%\\^|~`$&,;:/\n\t\x7f"        # the API reference also forbids the control characters (U+0000-001F, U+007F-009F): three representatives
SAFE = "aB09.-_"
ALPHABET = SAFE + FORBIDDEN
REGIONS = ["local", "us-east-1", "eu-west-2"]
ACCOUNTS = ["0123456789", "1"]

_mods = None


def mods():
    global _mods
    if _mods is None:
        from .. import world as W
        W.install()
        import asl_workflow_engine.arn as arn
        import asl_workflow_engine.rest_api_asyncio as ra
        env.setup_paths(fakes=True)
        try:
            import asl_workflow_engine.rest_api as rb
        except Exception as e:      # the blocking front end imports flask only
            rb = None
        _mods = (arn, ra, rb)
    return _mods


def expected_valid(name):
    """The documented rule: 1..80 characters, none of the forbidden characters (punctuation listed in the API reference and control characters)."""
    return isinstance(name, str) and 1 <= len(name) <= 80 and not any(c in FORBIDDEN for c in name)


def check_name(sm_name, ex_name, region="local", account="0123456789"):
    arn, ra, rb = mods()
    fails = []
    for nm in {sm_name, ex_name}:
        a = bool(ra.valid_name(nm))
        if rb is not None and bool(rb.valid_name(nm)) != a:
            fails.append(("front-ends-disagree", "valid_name(%r): asyncio=%r blocking=%r" % (nm, a, bool(rb.valid_name(nm)))))
        if a != expected_valid(nm):
            kind = "accepts-forbidden" if a else "rejects-legal"
            fails.append(("%s:%s" % (kind, "length-%d" % len(nm) if len(nm) in (0, 80, 81) else "chars"), "valid_name(%r) = %r" % (nm, a)))
    if not (ra.valid_name(sm_name) and ra.valid_name(ex_name)):
        return fails
    # the ARNs the API mints (rest_api_asyncio CreateStateMachine / StartExecution)
    sm = arn.create_arn(service="states", region=region, account=account, resource_type="stateMachine", resource=sm_name)
    p = arn.parse_arn(sm)
    want = {"arn": "arn", "partition": "aws", "service": "states", "region": region, "account": account,
            "resource_type": "stateMachine", "resource": sm_name}
    if p != want:
        fails.append(("sm-arn-parse", "parse_arn(%r) = %r expected %r" % (sm, p, want)))
    if arn.create_arn(p) != sm:
        fails.append(("sm-arn-rebuild", "create_arn(parse_arn(%r)) = %r" % (sm, arn.create_arn(p))))
    if not ra.valid_state_machine_arn(sm):
        fails.append(("sm-arn-rejected-by-validator", "%r (minted from an accepted name) is refused by valid_state_machine_arn" % sm))
    ex = arn.create_arn(service="states", region=p.get("region", "local"), account=p["account"], resource_type="execution",
                        resource=p["resource"] + ":" + ex_name)
    q = arn.parse_arn(ex)
    wantq = dict(want, resource_type="execution", resource=sm_name + ":" + ex_name)
    if q != wantq:
        fails.append(("execution-arn-parse", "parse_arn(%r) = %r expected %r" % (ex, q, wantq)))
    if arn.create_arn(q) != ex:
        fails.append(("execution-arn-rebuild", "create_arn(parse_arn(%r)) = %r" % (ex, arn.create_arn(q))))
    if not ra.valid_execution_arn(ex):
        fails.append(("execution-arn-rejected-by-validator", "%r is refused by valid_execution_arn" % ex))
    # the derivation used by end_execution / update_execution_history / the backstop
    split = ex.rpartition(":")
    d = arn.parse_arn(split[0])
    d["resource_type"] = "stateMachine"
    if arn.create_arn(d) != sm or split[2] != ex_name:
        fails.append(("derivation-last-colon", "from %r derived (%r, %r) expected (%r, %r)" % (ex, arn.create_arn(d), split[2], sm, ex_name)))
    return fails


def resource_arns():
    """ARNs the engine documents for Task Resources and for machines handed in by value: colon-typed, with or without region and account."""
    out = ["arn:aws:states:::states:startExecution", "arn:aws:states:::states:startExecution.sync", "arn:aws:states:::states:startExecution.sync:2",
           "arn:aws:states:::states:startExecution.waitForTaskToken", "arn:aws:states:::aws-sdk:sfn:startSyncExecution", "arn:aws:states:local::rpcmessage:invoke",
           "arn:aws:states:local::rpcmessage:invoke.waitForTaskToken", "arn:aws:rpcmessage:local::function:f", "arn:aws:lambda:us-east-1:123456789012:function:f"]
    for region in ("", "local", "eu-west-2"):
        for account in ("", "0123456789"):
            for rt, res in (("stateMachine", "m"), ("stateMachine", "M-3_x.y"), ("execution", "m:e"), ("execution", "m:00000000-0000-4000-8000-000000000001"), ("function", "f"), ("activity", "a")):
                out.append("arn:aws:states:%s:%s:%s:%s" % (region, account, rt, res))
                # every partition and another service (the parts are independent of each other)
                for partition, service in (("aws-cn", "states"), ("aws-us-gov", "states"), ("aws", "lambda"), ("aws-cn", "lambda")):
                    out.append("arn:%s:%s:%s:%s:%s:%s" % (partition, service, region, account, rt, res))
    return sorted(set(out))


def check_resource_arn(text):
    arn, ra, rb = mods()
    fails = []
    parts = text.split(":", 6)
    want = {"arn": parts[0], "partition": parts[1], "service": parts[2], "region": parts[3], "account": parts[4], "resource_type": parts[5], "resource": parts[6]}
    try:
        p = arn.parse_arn(text)
        back = arn.create_arn(p)
    except Exception as e:
        return [("resource-arn-raises:%s" % type(e).__name__, "%r: %r" % (text, e))]
    if p != want:
        fails.append(("resource-arn-parse", "parse_arn(%r) = %r, the parts it was built from are %r" % (text, p, want)))
    if back != text:
        fails.append(("resource-arn-rebuild", "create_arn(parse_arn(%r)) = %r" % (text, back)))
    return fails


def nontrivial_name(n):
    return len(n) >= 79 or any(c in n for c in ".-_" + FORBIDDEN)


def pure_shard(k, seed, tier, nshards=1, maxlen=3):
    camp = Campaign(PID, rule=RULE, tier=tier, seed=seed)
    if k == 0:
        for text in resource_arns():
            case = {"kind": "resource-arn", "arn": text}
            camp.case(case, nontrivial="::" in text, classes=["resource-arn", "blank-region-or-account" if "::" in text else "full"])
            for b, d in check_resource_arn(text):
                camp.fail(b, case, d)
    i = 0
    for n in range(0, maxlen + 1):
        for tup in itertools.product(ALPHABET, repeat=n):
            i += 1
            if i % nshards != k:
                continue
            name = "".join(tup)
            other = "e.x-1_" if i % 3 else name
            region = REGIONS[i % len(REGIONS)]
            account = ACCOUNTS[i % len(ACCOUNTS)]
            case = {"kind": "name", "sm": name, "ex": other, "region": region, "account": account}
            camp.case(case, nontrivial=nontrivial_name(name), classes=["pure-exhaustive", "len-%d" % n, "accepted" if expected_valid(name) else "rejected"])
            for b, d in check_name(name, other, region, account):
                camp.fail(b, case, d)
            if other != name and i % 5 == 0:
                for b, d in check_name(other, name, region, account):
                    camp.fail(b, {"kind": "name", "sm": other, "ex": name, "region": region, "account": account}, d)
    return camp.export()


def random_shard(k, seed, tier, examples=2000):
    import hypothesis
    from hypothesis import given, settings, HealthCheck, Phase, strategies as st
    camp = Campaign(PID, rule=RULE, tier=tier, seed=seed)
    names = st.one_of(st.text(alphabet=SAFE, min_size=1, max_size=81),
                      st.text(alphabet=ALPHABET, min_size=0, max_size=12),
                      st.sampled_from([79, 80, 81]).flatmap(lambda n: st.text(alphabet=SAFE, min_size=n, max_size=n)),
                      st.tuples(st.text(alphabet=SAFE, min_size=0, max_size=40), st.sampled_from(list(FORBIDDEN)), st.text(alphabet=SAFE, min_size=0, max_size=40)).map("".join))

    @hypothesis.seed(seed)
    @settings(max_examples=examples, deadline=None, database=None, suppress_health_check=list(HealthCheck), phases=[Phase.generate])
    @given(names, names, st.sampled_from(REGIONS), st.sampled_from(ACCOUNTS))
    def run(a, b, region, account):
        case = {"kind": "name", "sm": a, "ex": b, "region": region, "account": account}
        camp.case(case, nontrivial=nontrivial_name(a) or nontrivial_name(b), classes=["pure-random", "len>=79" if max(len(a), len(b)) >= 79 else "len<79"])
        for bb, d in check_name(a, b, region, account):
            camp.fail(bb, case, d)
    run()
    return camp.export()


# --------------------------------------------------------------- engine level
def check_engine(sm_name, ex_name, mode):
    """mode: STANDARD | EXPRESS | restart | backstop"""
    from .. import world as W
    arn, ra, rb = mods()
    fails = []
    typ = "EXPRESS" if mode in ("EXPRESS", "foreign-region-express", "foreign-region-sync") else "STANDARD"
    w = W.World(seed=17, tick=0.0, execution_ttl=50 if mode == "backstop" else 86400)
    try:
        w.add_engine("A")
        if mode in ("restart", "backstop"):
            definition = {"StartAt": "P", "States": {"P": {"Type": "Parallel", "End": True, "Branches": [
                {"StartAt": "T", "States": {"T": {"Type": "Task", "Resource": W.fn_arn("f"), "End": True}}},
                {"StartAt": "Q", "States": {"Q": {"Type": "Pass", "End": True}}}]}}}
        else:
            definition = {"StartAt": "T", "States": {"T": {"Type": "Task", "Resource": W.fn_arn("f"), "End": True}}}
        replies = {"n": 0}
        w.add_worker("f", (lambda i, p, pr: []) if mode == "backstop" else (lambda i, p, pr: [(1, {"ok": 1})]))
        st_, r = w.create_state_machine(sm_name, definition, type_=typ)
        if st_ != 200:
            return [("engine-create-refused", "CreateStateMachine(%r) -> %r" % (sm_name, r))]
        sm = r["stateMachineArn"]
        want_sm = W.sm_arn(sm_name)
        if sm != want_sm:
            fails.append(("engine-sm-arn", "CreateStateMachine(%r) returned %r" % (sm_name, sm)))
        region = "local"
        if mode.startswith("foreign-region"):
            # the store is shared with an instance configured for another region: the machine was created there, this instance runs its executions
            region = "eu-west-2"
            store = w.engine().state_engine.asl_store
            foreign = sm.replace(":local:", ":%s:" % region, 1)
            rec_ = dict(store[sm])
            rec_["stateMachineArn"] = foreign
            store[foreign] = rec_
            del store[sm]
            sm = foreign
        if mode == "foreign-region-sync":
            t_ = w.engine().api_task("StartSyncExecution", {"stateMachineArn": sm, "input": json.dumps({"x": 1}), "name": ex_name})
            w.api_tasks.append(t_)
            W.spin(5)
            w.run()
            W.spin(5)
            if not t_.done():
                return fails + [("engine-start-sync-no-answer", "StartSyncExecution(name=%r) did not answer" % (ex_name,))]
            st_, r = t_.result()
            if st_ == 200 and r.get("stateMachineArn") != sm:
                fails.append(("engine-start-sync-answer-identifiers", "StartSyncExecution answered stateMachineArn=%r for %r" % (r.get("stateMachineArn"), sm)))
        else:
            st_, r = w.start_execution(sm, {"x": 1}, name=ex_name)
        if st_ != 200:
            return fails + [("engine-start-refused", "StartExecution(name=%r) -> %r" % (ex_name, r))]
        ex = r["executionArn"]
        want_ex = "arn:aws:states:%s:%s:execution:%s:%s" % (region, W.ACCOUNT, sm_name, ex_name)
        if ex != want_ex:
            fails.append(("engine-execution-arn", "StartExecution returned %r expected %r" % (ex, want_ex)))
        if mode == "restart":
            w.run(until=lambda w_: len(w.workers["f"].requests) >= 1)
            w.crash_engine("A")
            w.restart_engine("A")
        w.run()
        if mode == "backstop":
            w.advance(130)      # two backstop sweeps (every 60 heartbeats); execution_ttl = 50 s
            w.run()
        notes = w.notifications_for(ex)
        statuses = [n["body"]["detail"]["status"] for n in notes]
        if not statuses or statuses[-1] == "RUNNING":
            fails.append(("engine-no-terminal:%s" % mode, "name=%r/%r statuses=%r" % (sm_name, ex_name, statuses)))
        for n in w.notifications:
            d = n["body"]["detail"]
            if d.get("executionArn") != ex:
                if ex_name in str(d.get("executionArn")) or d.get("name") == ex_name:
                    fails.append(("engine-notification-wrong-execution-arn:%s" % mode, "%r" % d))
                continue
            if d.get("stateMachineArn") != sm or d.get("name") != ex_name:
                fails.append(("engine-notification-identifiers:%s" % mode, "detail has stateMachineArn=%r name=%r expected %r/%r" % (d.get("stateMachineArn"), d.get("name"), sm, ex_name)))
            if n["subject"] != sm + "." + d["status"]:
                fails.append(("engine-notification-subject:%s" % mode, "subject %r expected %r" % (n["subject"], sm + "." + d["status"])))
            if n["body"].get("resources") != [ex]:
                fails.append(("engine-notification-resources:%s" % mode, "%r" % (n["body"].get("resources"),)))
        if typ == "STANDARD":
            st_, rec = w.describe_execution(ex)
            if st_ != 200:
                fails.append(("engine-describe:%s" % mode, "DescribeExecution(%r) -> %r %r" % (ex, st_, rec)))
            elif rec.get("stateMachineArn") != sm or rec.get("name") != ex_name or rec.get("executionArn") != ex:
                fails.append(("engine-record-identifiers:%s" % mode, "%r" % rec))
            st_, lst = w.engine().api("ListExecutions", {"stateMachineArn": sm})
            if st_ != 200 or [e["executionArn"] for e in lst["executions"]] != [ex]:
                fails.append(("engine-list-executions:%s" % mode, "%r" % (lst,)))
            st_, dsm = w.engine().api("DescribeStateMachineForExecution", {"executionArn": ex})
            if st_ != 200 or dsm.get("stateMachineArn") != sm:
                fails.append(("engine-sm-for-execution:%s" % mode, "%r %r" % (st_, dsm)))
    finally:
        w.close()
    return fails


def engine_shard(k, seed, tier, examples=10):
    import hypothesis
    from hypothesis import given, settings, HealthCheck, Phase, strategies as st
    camp = Campaign(PID, rule=RULE, tier=tier, seed=seed)
    good = st.one_of(st.text(alphabet=SAFE, min_size=1, max_size=12), st.sampled_from([79, 80]).flatmap(lambda n: st.text(alphabet=SAFE, min_size=n, max_size=n)),
                     st.sampled_from(["a.b", "a.SUCCEEDED", "x.RUNNING.y", "-", "_", ".", "..", "a-b_c.d", "0", "execution", "stateMachine"]))

    @hypothesis.seed(seed)
    @settings(max_examples=examples, deadline=None, database=None, suppress_health_check=list(HealthCheck), phases=[Phase.generate])
    @given(good, good, st.sampled_from(["STANDARD", "EXPRESS", "restart", "backstop", "foreign-region", "foreign-region-express", "foreign-region-sync"]))
    def run(a, b, mode):
        case = {"kind": "engine", "sm": a, "ex": b, "mode": mode}
        try:
            fails = check_engine(a, b, mode)
        except Exception as e:
            camp.harness_error("engine case %s crashed: %r %s" % (json.dumps(case), e, traceback.format_exc()[-600:]))
            return
        camp.case(case, nontrivial=nontrivial_name(a) or nontrivial_name(b), classes=["engine", "mode-" + mode])
        for bb, d in fails:
            camp.fail(bb, case, d)
    run()
    return camp.export()


def replay_case(case):
    if case["kind"] == "engine":
        return check_engine(case["sm"], case["ex"], case["mode"])
    if case["kind"] == "resource-arn":
        return check_resource_arn(case["arn"])
    return check_name(case["sm"], case["ex"], case.get("region", "local"), case.get("account", "0123456789"))


def main(tier, seed, replay=None):
    camp = Campaign(PID, rule=RULE, tier=tier, seed=seed)
    camp.assumptions = [
        "the alphabet is letters, digits, '.', '-', '_', space and the punctuation the validators list; control characters (e.g. newline) are outside the stated alphabet",
        "only ARN shapes the API mints (stateMachine:<name>, execution:<machine>:<name>) are required to round-trip",
    ]
    try:
        mods()
    except Exception as e:
        camp.harness_error("cannot import the code under test: %r" % e)
        return camp.finish()
    if replay:
        with open(replay) as fp:
            rec = json.load(fp)
        for b, d in replay_case(rec["case"]):
            camp.fail(b, rec["case"], d)
        camp.case(rec["case"], True)
        camp.min_nontrivial = 0
        camp.write_evidence = False
        return camp.finish()
    camp.run_witnesses(replay_case)
    if tier == "thorough":
        run_shards(camp, __name__, "pure_shard", 16, nshards=16, maxlen=4)
        run_shards(camp, __name__, "random_shard", 16, examples=20000)
        run_shards(camp, __name__, "engine_shard", 16, examples=40)
    else:
        run_shards(camp, __name__, "pure_shard", 8, nshards=8, maxlen=3)
        run_shards(camp, __name__, "random_shard", 4, examples=1500)
        run_shards(camp, __name__, "engine_shard", 8, examples=14)
    camp.extra["exhaustive_subdomain"] = "all names up to length 3 (quick) / 4 (thorough) over the 31-character alphabet are enumerated completely"
    return camp.finish()
