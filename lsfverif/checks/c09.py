"""
C09 - execution history is a gap-free, ordered, faithful log.
HistoryMonitor after every step (numbering, timestamps, append-only, single terminal event agreeing with the
record, nothing appended afterwards, EXPRESS stores nothing) + GetExecutionHistory in both orders + StateEntered /
StateExited compared with the reference interpreter's trace.
"""
import copy, json

from . import _monitored as mon
from .. import sched as S
from ..ref import interp as ri

PID = "C09"
RULE = ("cases = (machine incl. retries, catches, fan-outs and failing branches, 1-3 executions, schedule), STANDARD and EXPRESS. After every step the stored history of each "
        "execution is checked (ids 1..n, previousEventId, non-decreasing timestamps, first event ExecutionStarted with the input, append-only, exactly one terminal event that "
        "is last and agrees with DescribeExecution, nothing appended afterwards; EXPRESS: no record, no history); at the end GetExecutionHistory is read in both orders and the "
        "StateEntered/StateExited events are compared with the reference interpreter's trace (exact sequence for sequential machines, multisets and enter-before-exit for fan-outs, "
        "subset when a failure cuts siblings short). Non-trivial = history length >= 6 and a retry, fan-out or failure path is present. Distinct by canonical JSON.")


def probe(w, started):
    from .. import monitors as M
    out = {}
    for arn in started:
        st, fwd = w.history(arn)
        st2, rev = w.history(arn, reverse=True)
        # reading is not allowed to change anything: read again in both orders, and look at what the engine stores now
        st3, fwd2 = w.history(arn)
        st4, rev2 = w.history(arn, reverse=True)
        st5, fwd3 = w.history(arn)
        out[arn] = {"fwd": (st, fwd), "rev": (st2, rev), "again": [(st3, fwd2), (st4, rev2), (st5, fwd3)], "stored_after": M.engine_history(w, arn)}
    return out


def _events(trace, out):
    for ev in trace:
        if ev[0] in ("enter", "exit", "exit?"):
            out.append((ev[0], ev[1], ev[2]))
        elif ev[0] == "fanout":
            for bt in ev[2]:
                _events(bt, out)
    return out


def _has_fanout(trace):
    return any(ev[0] == "fanout" for ev in trace)


def _multiset_sub(a, b, a_is_reference=False):
    """every element of a can be matched to a distinct element of b (values_match(observed, expected))"""
    rest = list(b)
    for x in a:
        for i, y in enumerate(rest):
            if x[0].rstrip("?") == y[0].rstrip("?") and x[1] == y[1] and (ri.values_match(y[2], x[2]) if a_is_reference else ri.values_match(x[2], y[2])):
                del rest[i]
                break
        else:
            return x
    return None


def extra(case, sched, starts, res):
    fails = []
    info = res["info"]
    standard = case.get("type", "STANDARD") == "STANDARD"
    for arn, pr in (info.get("probe") or {}).items():
        (st, fwd), (st2, rev) = pr["fwd"], pr["rev"]
        stored = (info.get("histories") or {}).get(arn)
        if not standard:
            if st == 200 and (fwd or {}).get("events"):
                fails.append(("express-history-served", "GetExecutionHistory of an EXPRESS execution returned %d events" % len(fwd["events"])))
            continue
        if stored is None:
            continue
        if st != 200 or st2 != 200:
            fails.append(("GetExecutionHistory-refused", "%s: %r %r" % (arn, st, fwd)))
            continue
        if fwd.get("events") != json.loads(json.dumps(stored)):
            fails.append(("GetExecutionHistory-differs-from-store", "%s: %d events served, %d stored" % (arn, len(fwd.get("events", [])), len(stored))))
        if rev.get("events") != list(reversed(fwd.get("events", []))):
            fails.append(("reverseOrder-not-reverse", "%s: reverse order list is not the reverse of the forward list" % arn))
        (s3, f2), (s4, r2), (s5, f3) = pr.get("again") or [(200, fwd), (200, rev), (200, fwd)]
        if (s3, s4, s5) != (200, 200, 200) or f2.get("events") != fwd.get("events") or f3.get("events") != fwd.get("events") or r2.get("events") != rev.get("events"):
            fails.append(("history-read-not-repeatable", "%s: reading the history again (forward, reverse, forward) after a reverseOrder read gives other lists" % arn))
        if pr.get("stored_after") is not None and json.loads(json.dumps(pr["stored_after"])) != json.loads(json.dumps(stored)):
            fails.append(("history-read-changed-store", "%s: the stored history changed by being read" % arn))
    # trace differential for the primary execution
    if not standard or not starts or starts[0]["mode"] != "api":
        return fails
    arn = (info.get("started") or [None])[0]
    hist = (info.get("histories") or {}).get(arn)
    if not hist:
        return fails
    try:
        it, exp = S.reference(case, starts[0]["input"], name=starts[0].get("name", "e1"))
    except ri.Unspec:
        return fails
    if it.ambiguous_failure or it.multi_retrier:
        return fails
    from .. import harness as H
    if H.has_inband_error(exp):
        return fails            # finding C01-F8 changes which states run
    ref = _events(exp.trace, [])
    got = []
    for e in hist:
        t = e["type"]
        if t.endswith("StateEntered"):
            d = e.get("stateEnteredEventDetails") or {}
            if not isinstance(d.get("input"), str):
                fails.append(("state-entered-without-input", "event #%s %s of %r carries no input: %r" % (e.get("id"), t, d.get("name"), d)))
                return fails
            got.append(("enter", d.get("name"), json.loads(d["input"])))
        elif t.endswith("StateExited"):
            d = e.get("stateExitedEventDetails") or {}
            if not isinstance(d.get("output"), str):
                fails.append(("state-exited-without-output", "event #%s %s of %r carries no output: %r" % (e.get("id"), t, d.get("name"), d)))
                return fails
            got.append(("exit", d.get("name"), json.loads(d["output"])))
    def _any_failure(trace):
        for ev in trace:
            if ev[0] in ("caught", "retry"):
                return True
            if ev[0] == "fanout" and any(_any_failure(bt) for bt in ev[2]):
                return True
        return False
    # a failure (even one that is caught or retried) cuts the siblings of the failing branch short
    failed = exp.status == "FAILED" or _any_failure(exp.trace)
    if not _has_fanout(exp.trace):
        # sequential: exact order; a failed state has no StateExited
        # align: optional reference elements ("exit?" of a caught state) may be absent from the history
        aligned, gi = [], 0
        for r in ref:
            if gi < len(got) and got[gi][0] == r[0].rstrip("?") and got[gi][1] == r[1]:
                aligned.append((got[gi], r))
                gi += 1
            elif r[0].endswith("?"):
                continue
            else:
                aligned = None
                break
        refseq = [(k, n) for k, n, _ in ref]
        gotseq = [(k, n) for k, n, _ in got]
        if aligned is None or gi != len(got):
            fails.append(("state-event-sequence", "history has %r, the transitions taken are %r" % (gotseq[:14], refseq[:14])))
        else:
            for g, r in aligned:
                if not ri.values_match(g[2], r[2]):
                    fails.append(("state-event-data:%s" % g[0], "state %s: history has %s, expected %r" % (g[1], json.dumps(g[2])[:200], r[2])))
                    break
    else:
        miss = _multiset_sub(got, ref)
        if miss is not None:
            fails.append(("state-event-not-in-reference:%s" % miss[0], "history logs %s of %s with %s which the reference run never produces" % (miss[0], miss[1], json.dumps(miss[2])[:200])))
        if not failed:
            miss = _multiset_sub([r for r in ref if not r[0].endswith("?")], got, a_is_reference=True)
            if miss is not None:
                fails.append(("state-event-missing:%s" % miss[0], "the run %ss state %s with %r but the history has no such event" % (miss[0], miss[1], miss[2])))
        depth = {}
        for k, n, _ in got:
            depth[n] = depth.get(n, 0) + (1 if k == "enter" else -1)
            if depth[n] < 0:
                fails.append(("exit-before-enter", "state %s has StateExited before StateEntered" % n))
                break
    return fails


def nontrivial(case, sched, starts, info):
    hs = [h for h in (info.get("histories") or {}).values() if h]
    long_enough = any(len(h) >= 6 for h in hs)
    feats = case.get("features", [])
    return long_enough and any(f in feats for f in ("Parallel", "Map", "Retry", "task-error", "task-error-then-ok", "catch-taken", "Fail", "fanout-with-failing-branch"))


mon.SPECS[PID] = mon.Spec(PID, ("history", "exceptions"), RULE, [
    "the trace differential is applied to the first (API-started) execution when the reference is deterministic (no concurrent ambiguous failures, no in-band Error data, single retrier)",
    "task lifecycle events (LambdaFunctionScheduled, TaskSucceeded, ...) are checked for numbering/order only, not against a reference",
], nontrivial=nontrivial, extra=extra, run_kwargs={"probe": probe}, variants=lambda: __import__("hypothesis").strategies.sampled_from(
    [{}, {}, {"logging": "ALL"}, {"logging": "ERROR"}, {"midrun_reads": 3}, {"midrun_reads": 7},
     # the execution data is kept out of the *log*, not out of the stored history
     {"logging": "ALL", "include_data": False}, {"logging": "ERROR", "include_data": False},
     # the blocking (Flask) front end on a clock that does not move between the events of one handling: equal timestamps
     {"rest": "blocking", "tick": 0.0, "midrun_reads": 2}, {"rest": "blocking", "tick": 0.0, "midrun_reads": 5}]))


def main(tier, seed, replay=None):
    return mon.main(PID, tier, seed, replay)
