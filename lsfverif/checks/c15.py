"""
C15 - child executions and task-token callbacks complete exactly their launching task.

Two generated scenario families, both run on the real engine stack over the
simulated broker and virtual clock with generated delivery schedules:

child : parent machine (plain / inside Parallel with a sibling / inside Map) launching a
        child machine (succeeds, two steps, fails in a task, Fail state, blocked on a Wait,
        blocked on a Task, blocked in a nested Parallel) through startExecution,
        .sync, .sync:2 or aws-sdk:sfn:startSyncExecution, STANDARD/EXPRESS on both
        sides, existing/unknown child machine, optional Name, optional parent
        TimeoutSeconds shorter/longer than the child, failing/succeeding sibling.
token : one or two executions of a .waitForTaskToken task (rpcmessage invoke or
        startExecution form), optional TimeoutSeconds and Retry, and per attempt a
        generated callback stream: SendTaskSuccess/SendTaskFailure with the valid
        token, the token of the earlier attempt, the other execution's token,
        truncated / wrong-suffix / three-part / non-base64 / forged tokens, and
        ordinary worker replies (value or error) before or after the callback.

The expected result is computed by a small model written from the property text
(not from the engine): see expected_child() and the TokenModel class.
"""
import base64, copy, json, traceback

from .. import env
from ..runner import Campaign, HarnessError, run_shards

PID = "C15"
RULE = ("case = one generated child-launch scenario (form x parent/child type x child behaviour x parent shape x timeout/sibling timing x Name/Input x delivery schedule) or one "
        "token scenario (form x 1-2 executions x timeout x retry x per-attempt callback stream x schedule). Non-trivial = child family: a synchronous form whose child "
        "takes virtual time, fails, or is cut short by a parent timeout / sibling failure, or an invalid combination; token family: a stream with at least two callbacks "
        "or an invalid/foreign/late token or an ordinary reply. Distinct by the scenario's canonical JSON.")

FORMS = {
    "async": "arn:aws:states:local::states:startExecution",
    "sync": "arn:aws:states:local::states:startExecution.sync",
    "sync2": "arn:aws:states:local::states:startExecution.sync:2",
    "sdk_sync": "arn:aws:states:local::aws-sdk:sfn:startSyncExecution",
}
TOKEN_FORMS = {
    "invoke": "arn:aws:states:local::rpcmessage:invoke.waitForTaskToken",
    "child": "arn:aws:states:local::states:startExecution.waitForTaskToken",
}
DOCUMENTED = ["ExecutionArn", "Input", "Name", "Output", "StartDate", "StateMachineArn", "Status", "StopDate"]
SLOW = 30
EPS = 1e-3


def pascal(k):
    return k[:1].upper() + k[1:]


FALSY_OUTPUTS = {"out_empty_object": {}, "out_empty_list": [], "out_empty_string": "", "out_zero": 0, "out_false": False, "out_null": None}


# ----------------------------------------------------------------- child family
def child_definition(kind, W):
    T = lambda fn, **kw: dict({"Type": "Task", "Resource": W.fn_arn(fn)}, **kw)
    if kind == "succeed":
        return {"StartAt": "C1", "States": {"C1": T("childfn", End=True)}}
    if kind == "two_step":
        return {"StartAt": "C1", "States": {"C1": T("childfn", Next="C2"), "C2": T("childfn2", End=True)}}
    if kind == "fail_task":
        return {"StartAt": "C1", "States": {"C1": T("childfail", End=True)}}
    if kind == "fail_state":
        return {"StartAt": "P", "States": {"P": {"Type": "Pass", "Next": "F"}, "F": {"Type": "Fail", "Error": "ChildFail", "Cause": "because"}}}
    if kind == "slow_wait":
        return {"StartAt": "Wt", "States": {"Wt": {"Type": "Wait", "Seconds": SLOW, "Next": "C2"}, "C2": T("childfn2", End=True)}}
    if kind == "slow_task":
        return {"StartAt": "C1", "States": {"C1": T("childslow", Next="C2"), "C2": T("childfn2", End=True)}}
    if kind == "slow_longform_task":
        # the Task the child is blocked on is written in the long form (Resource ...:rpcmessage:invoke, Parameters = {FunctionName, Payload}); its wrapped result is discarded
        return {"StartAt": "C1", "States": {"C1": {"Type": "Task", "Resource": "arn:aws:states:local::rpcmessage:invoke", "Parameters": {"FunctionName": W.fn_arn("childslow"), "Payload.$": "$"},
                                                   "ResultPath": None, "Next": "C2"}, "C2": T("childfn2", End=True)}}
    if kind == "fanout_then_slow_task":
        # the child has completed a Parallel state earlier and is blocked on a top-level Task when the parent lets go of it
        return {"StartAt": "Par0", "States": {
            "Par0": {"Type": "Parallel", "ResultPath": "$.par", "Next": "C1", "Branches": [{"StartAt": "PA", "States": {"PA": {"Type": "Pass", "End": True}}},
                                                                                     {"StartAt": "PB", "States": {"PB": T("childfn", End=True)}}]},
            "C1": T("childslow", Next="C2"), "C2": T("childfn2", End=True)}}
    if kind == "wait_then_slow_task":
        # the child has been through a Wait that elapsed normally and is blocked on a Task when the parent lets go of it
        return {"StartAt": "W0", "States": {"W0": {"Type": "Wait", "Seconds": 1, "Next": "C1"}, "C1": T("childslow", Next="C2"), "C2": T("childfn2", End=True)}}
    if kind == "slow_nested":
        return {"StartAt": "Par", "States": {
            "Par": {"Type": "Parallel", "Next": "C2", "Branches": [
                {"StartAt": "Wt", "States": {"Wt": {"Type": "Wait", "Seconds": SLOW, "End": True}}},
                {"StartAt": "C1", "States": {"C1": T("childslow", End=True)}}]},
            "C2": T("childfn2", End=True)}}
    if kind in FALSY_OUTPUTS:
        # the child succeeds with an output that is falsy in Python ({} [] "" 0 false null): still its output
        return {"StartAt": "C1", "States": {"C1": T("childfn", Next="C2"), "C2": {"Type": "Pass", "Result": FALSY_OUTPUTS[kind], "End": True}}}
    if kind == "fail_in_parallel":
        # the child fails inside a Parallel state one of whose Branches has finished already (its event is held for the join when the child ends)
        return {"StartAt": "Par", "States": {"Par": {"Type": "Parallel", "End": True, "Branches": [
            {"StartAt": "PA", "States": {"PA": {"Type": "Pass", "End": True}}},
            {"StartAt": "PB", "States": {"PB": T("childfail", End=True)}}]}}}
    if kind == "slow_nested2":
        # the child is blocked two Map/Parallel levels deep (a Wait and a Task inside a Parallel inside a Map iteration) when the parent lets go of it
        inner = {"Type": "Parallel", "End": True, "Branches": [
            {"StartAt": "Wt", "States": {"Wt": {"Type": "Wait", "Seconds": SLOW, "End": True}}},
            {"StartAt": "C1", "States": {"C1": T("childslow", End=True)}}]}
        return {"StartAt": "Mp", "States": {
            "Mp": {"Type": "Map", "ItemsPath": "$.two", "Parameters": {"x.$": "$$.Map.Item.Value"}, "ResultPath": "$.m", "Next": "C2", "ItemProcessor": {"StartAt": "Par", "States": {"Par": inner}}},
            "C2": T("childfn2", End=True)}}
    raise HarnessError("unknown child kind %r" % kind)


def child_result(kind, inp):
    if kind == "succeed":
        return "SUCCEEDED", {"got": inp, "k": 1}
    if kind == "two_step":
        return "SUCCEEDED", {"second": {"got": inp, "k": 1}}
    if kind in FALSY_OUTPUTS:
        return "SUCCEEDED", FALSY_OUTPUTS[kind]
    if kind in ("fail_task", "fail_in_parallel"):
        return "FAILED", "ChildErr"
    if kind == "fail_state":
        return "FAILED", "ChildFail"
    if kind in ("slow_wait", "slow_longform_task"):
        return "SUCCEEDED", {"second": inp}
    if kind in ("slow_task", "wait_then_slow_task", "fanout_then_slow_task"):
        return "SUCCEEDED", {"second": {"late": True}}
    if kind == "slow_nested":
        return "SUCCEEDED", {"second": [inp, {"late": True}]}
    if kind == "slow_nested2":
        return "SUCCEEDED", {"second": dict(inp, m=[[{"x": i}, {"late": True}] for i in inp["two"]])}


def child_duration(sc):
    k = sc["child"]
    if k in ("succeed", "two_step", "fail_task", "fail_in_parallel") or k in FALSY_OUTPUTS:
        return sc["child_delay"]
    if k == "fail_state":
        return 0
    if k == "wait_then_slow_task":
        return SLOW + 1
    if k == "fanout_then_slow_task":
        return SLOW + sc["child_delay"]
    return SLOW


def launch_state(sc, W, input_from_item=False):
    params = {"StateMachineArn": W.sm_arn("child" if sc["child_exists"] else "nosuch")}
    if input_from_item:
        params["Input.$"] = "$"
    elif sc["child_input"] != "__omitted__":
        params["Input"] = sc["child_input"]
    if sc.get("name") and not input_from_item:
        params["Name"] = sc["name"]
    # the documented short form arn:aws:states:::states:startExecution (no region) is accepted as well
    resource = FORMS[sc["form"]].replace(":local:", ":%s:" % sc.get("resource_region", "local"), 1)
    st = {"Type": "Task", "Resource": resource, "Parameters": params, "End": True}
    if sc.get("timeout"):
        st["TimeoutSeconds"] = sc["timeout"]
    return st


def parent_definition(sc, W):
    shape = sc["shape"]
    if shape == "plain":
        return {"StartAt": "L", "States": {"L": launch_state(sc, W)}}
    if shape == "parallel":
        return {"StartAt": "Par", "States": {"Par": {"Type": "Parallel", "End": True, "Branches": [
            {"StartAt": "L", "States": {"L": launch_state(sc, W)}},
            {"StartAt": "S", "States": {"S": {"Type": "Task", "Resource": W.fn_arn("sibfn"), "End": True}}}]}}}
    if shape == "map":
        return {"StartAt": "M", "States": {"M": {"Type": "Map", "ItemsPath": "$.items", "End": True,
                                                 "Iterator": {"StartAt": "L", "States": {"L": launch_state(sc, W, input_from_item=True)}}}}}
    raise HarnessError("unknown shape")


def name_is_valid(name):
    """The API's rule for names (C16 / C17): a string of 1..80 characters, none of them forbidden."""
    return isinstance(name, str) and 1 <= len(name) <= 80 and not (set(name) & set(" <>{}[]?*\"#%\\^|~`$&,;:/")) and not any(ord(ch) < 32 or 127 <= ord(ch) < 160 for ch in name)


def invalid_reason(sc):
    if not sc["child_exists"]:
        return "unknown-machine"
    if sc.get("name") and sc.get("shape") != "map" and not name_is_valid(sc["name"]):
        # the Name ends the child's execution ARN: one the StartExecution API would refuse (it would not split back, C17) must fail the launching Task, and no child may run (finding F113)
        return "invalid-name"
    if sc["form"] in ("sync", "sync2") and sc["parent_type"] == "EXPRESS":
        return "sync-from-express"
    if sc["form"] == "sdk_sync" and sc["child_type"] == "STANDARD":
        return "startSyncExecution-of-standard"
    return None


def quiet(horizon):
    def until(w):
        b = w.broker
        if b.pending_returns or w.pushed or b.deliverable() or b.due_timers():
            return False
        return not [t for t in b.live_timers() if not w.is_heartbeat(t) and t.deadline - w.clock.now <= horizon]
    return until


def first_terminal(w, arn):
    for n in w.notifications_for(arn):
        if n["body"]["detail"]["status"] != "RUNNING":
            return n
    return None


def run_child(sc):
    from .. import world as W
    from ..harness import detail_outcome
    fails = []
    w = W.World(seed=15, tick=0.0)
    w.eager_time = False
    try:
        eng = w.add_engine("A")
        cd = sc["child_delay"]
        w.add_worker("childfn", lambda i, p, props: [(cd, {"got": p, "k": 1})])
        w.add_worker("childfn2", lambda i, p, props: [(0, {"second": p})])
        w.add_worker("childfail", lambda i, p, props: [(cd, {"errorType": "ChildErr", "errorMessage": "boom"})])
        w.add_worker("childslow", lambda i, p, props: [(SLOW, {"late": True})])
        sib_ok = sc.get("sib_ok", True)
        w.add_worker("sibfn", lambda i, p, props: [(sc.get("sib_delay", 0), {"sib": 1} if sib_ok else {"errorType": "SibErr", "errorMessage": "x"})])
        st, r = w.create_state_machine("child", child_definition(sc["child"], W), type_=sc["child_type"])
        if st != 200:
            raise HarnessError("child machine refused: %r" % (r,))
        st, r = w.create_state_machine("parent", parent_definition(sc, W), type_=sc["parent_type"])
        if st != 200:
            raise HarnessError("parent machine refused: %r" % (r,))
        items = [{"i": 0}, {"i": 1}]
        pin = {"items": items} if sc["shape"] == "map" else {"p": 1}
        t0 = w.clock.now
        st, r = w.start_execution(W.sm_arn("parent"), pin, name="p1")
        if st != 200:
            raise HarnessError("parent start refused: %r" % (r,))
        parent = r["executionArn"]
        res = w.run(sc.get("schedule", ()), max_steps=4000, until=quiet(100))
        if res == "max_steps":
            fails.append(("no-quiescence", "still busy after 4000 steps"))
        child_sm = W.sm_arn("child")
        children = []
        for n in w.notifications:
            d = (n["body"] or {}).get("detail") or {}
            if d.get("stateMachineArn") == child_sm and d.get("executionArn") not in children:
                children.append(d["executionArn"])
        pt = first_terminal(w, parent)
        pdetail = pt["body"]["detail"] if pt else None
        pout = detail_outcome(pdetail) if pdetail else None
        reason = invalid_reason(sc)
        form = sc["form"]
        cinput = {} if sc["child_input"] == "__omitted__" else sc["child_input"]
        nchildren = 2 if sc["shape"] == "map" else 1
        cstat, cres = child_result(sc["child"], cinput)
        dur = child_duration(sc)

        def child_terminals():
            return [(c, first_terminal(w, c)) for c in children]

        # ack-after-consequences across the launch: when a synchronous child ends, completing the parent's Task (the parent's next event or terminal notification) is a
        # consequence of the child's last handling; the events the child still holds (finished Branches waiting for a join) are released only after it has been handed over
        # (not when it is the parent's Task that times out and cancels the child: then the child's end is the consequence)
        if form != "async" and sc["shape"] == "plain" and not reason and len(children) == 1 and not (sc.get("timeout") and sc["timeout"] <= dur):
            log_ = w.broker.oplog
            c_ = children[0]

            def about(o, arn_):
                try:
                    if o["exchange"] == "asl_workflow_engine":
                        d_ = json.loads(o["body"])["detail"]
                        return d_.get("executionArn") == arn_ and d_.get("status") != "RUNNING"
                    if o["exchange"] == "" and any(q.startswith("asl_workflow_events") for q in o["queues"]):
                        return json.loads(o["body"])["context"]["Execution"]["Id"] == arn_
                except Exception:
                    pass
                return False
            n_ = next((o["seq"] for o in log_ if o["kind"] == "publish" and o["exchange"] == "asl_workflow_engine" and about(o, c_)), None)
            launch = next((o["seq"] for o in log_ if o["kind"] == "publish" and o["exchange"] == "" and about(o, c_)), None)
            p_ = next((o["seq"] for o in log_ if o["kind"] == "publish" and launch is not None and o["seq"] > launch and about(o, parent)), None)
            child_uids = {o["uid"] for o in log_ if o["kind"] == "publish" and o["exchange"] == "" and about(o, c_)}
            if n_ is not None and p_ is not None:
                early = [o for o in log_ if o["kind"] == "ack" and o["uid"] in child_uids and n_ < o["seq"] < p_]
                if early:
                    fails.append(("child-event-acked-before-parent-task-completed", "event uid %s of the child was acknowledged at op %d, after the child's terminal notification (op %d) "
                                  "but before the parent's Task was completed (op %d)" % (early[0]["uid"], early[0]["seq"], n_, p_)))

        if reason:
            # --- invalid combinations fail the task (no handler in these machines: the execution fails)
            if pdetail is None or pdetail["status"] != "FAILED":
                fails.append(("invalid-combination-not-refused:" + reason, "parent ended %r" % (pout,)))
            if reason != "unknown-machine" and children:
                fails.append(("invalid-combination-launched-child:" + reason, "children=%r" % children))
        elif form == "async":
            if len(children) != nchildren:
                fails.append(("async-child-count", "expected %d child executions, saw %r" % (nchildren, children)))
            sib_fails_first = sc["shape"] == "parallel" and not sib_ok
            if pdetail is None:
                fails.append(("async-parent-not-terminal", "parent never ended"))
            elif sib_fails_first:
                if pdetail["status"] != "FAILED":
                    fails.append(("async-parallel-sibling-failure-lost", repr(pout)))
            else:
                if pdetail["status"] != "SUCCEEDED":
                    fails.append(("async-parent-failed", repr(pout)))
                else:
                    out = json.loads(pdetail["output"])
                    results = out if sc["shape"] == "map" else [out[0] if sc["shape"] == "parallel" else out]
                    for rr in results:
                        arn = isinstance(rr, dict) and (rr.get("executionArn") or rr.get("ExecutionArn"))
                        if arn not in children:
                            fails.append(("async-result-lacks-child-arn", "task result %r, children %r" % (rr, children)))
                        elif not arn.startswith(child_sm.replace(":stateMachine:", ":execution:") + ":"):
                            fails.append(("child-arn-not-derived-from-its-machine", "executionArn %r for a child of %r" % (arn, child_sm)))
                    if sc["shape"] in ("plain", "map") and pt["t"] - t0 > EPS and dur > 0:
                        fails.append(("async-not-at-once", "parent ended %.3f s after start, child takes %s s" % (pt["t"] - t0, dur)))
            # the child runs to its own end regardless of the parent
            for c, ct in child_terminals():
                if ct is None:
                    fails.append(("async-child-never-ended", c))
                elif ct["body"]["detail"]["status"] != cstat:
                    fails.append(("async-child-wrong-status", "%s ended %s, expected %s" % (c, ct["body"]["detail"]["status"], cstat)))
        else:
            # --- synchronous forms
            # (a Map whose first child has failed need not launch the remaining ones)
            if len(children) > nchildren or (len(children) < nchildren and not (sc["shape"] == "map" and cstat == "FAILED" and children)):
                fails.append(("sync-child-count", "expected %d child executions, saw %r" % (nchildren, children)))
            cut = None      # (instant, expected parent error)
            if sc.get("timeout") and sc["timeout"] < dur:
                cut = (t0 + sc["timeout"], "States.Timeout")
            if sc["shape"] == "parallel" and not sib_ok and sc["sib_delay"] < dur and (cut is None or t0 + sc["sib_delay"] < cut[0]):
                cut = (t0 + sc["sib_delay"], "SibErr")
            if pdetail is None:
                fails.append(("sync-parent-not-terminal", "parent never ended; children %r" % [(c, bool(t)) for c, t in child_terminals()]))
            elif cut is not None:
                tc, err = cut
                if pdetail["status"] != "FAILED" or pdetail.get("error") != err:
                    fails.append(("cut-parent-outcome", "expected FAILED %s, got %r" % (err, pout)))
                elif abs(pt["t"] - tc) > EPS:
                    fails.append(("cut-parent-instant", "expected at +%.3f, ended at +%.3f" % (tc - t0, pt["t"] - t0)))
                # the child's blocked tasks and waits are cancelled at that moment
                late = [q for q in w.workers["childfn2"].requests if q["t"] > tc - EPS]
                if late:
                    fails.append(("child-not-cancelled:continued-after-cut", "child requested its next task at +%.3f, cut at +%.3f" % (late[0]["t"] - t0, tc - t0)))
                for c, ct in child_terminals():
                    if ct is None:
                        fails.append(("child-not-cancelled:never-ended", c))
                    else:
                        d = ct["body"]["detail"]
                        if d["status"] == "SUCCEEDED":
                            fails.append(("child-not-cancelled:succeeded", "%s SUCCEEDED at +%.3f after the cut at +%.3f" % (c, ct["t"] - t0, tc - t0)))
                        elif ct["t"] - tc > EPS:
                            fails.append(("child-not-cancelled:ended-late", "%s ended at +%.3f, cut at +%.3f" % (c, ct["t"] - t0, tc - t0)))
            else:
                sib_err = sc["shape"] == "parallel" and not sib_ok
                terms = child_terminals()
                for c, ct in terms:
                    if ct is None:
                        fails.append(("sync-child-never-ended", c))
                    elif ct["body"]["detail"]["status"] != cstat:
                        fails.append(("sync-child-wrong-status", "%s ended %s expected %s" % (c, ct["body"]["detail"]["status"], cstat)))
                last_child = max([ct for _, ct in terms if ct is not None], key=lambda n: n["seq"], default=None)
                if sib_err:
                    if pdetail["status"] != "FAILED" or pdetail.get("error") not in ("SibErr", "States.TaskFailed"):
                        fails.append(("sync-parallel-sibling-failure-lost", repr(pout)))
                elif cstat == "FAILED":
                    if pdetail["status"] != "FAILED" or pdetail.get("error") != "States.TaskFailed":
                        fails.append(("sync-child-failure-not-TaskFailed", "parent ended %r" % (pout,)))
                    elif cres not in (pdetail.get("cause") or ""):
                        fails.append(("sync-child-failure-cause-lacks-child-error", "cause %r lacks %s" % (pdetail.get("cause"), cres)))
                else:
                    if pdetail["status"] != "SUCCEEDED":
                        fails.append(("sync-parent-failed", repr(pout)))
                    else:
                        out = json.loads(pdetail["output"])
                        results = out if sc["shape"] == "map" else [out[0] if sc["shape"] == "parallel" else out]
                        for idx, rr in enumerate(results):
                            want_in = items[idx] if sc["shape"] == "map" else cinput
                            _, want_out = child_result(sc["child"], want_in)
                            fails.extend(check_sync_result(w, sc, rr, children, want_in, want_out, child_sm))
                        if sc["shape"] == "parallel" and out[1] != {"sib": 1}:
                            fails.append(("sync-parallel-sibling-result", repr(out)))
                # completion exactly when the child becomes terminal (plain shape: the parent ends in the same handler invocation)
                if sc["shape"] == "plain" and last_child is not None and pt["step"] != last_child["step"]:
                    fails.append(("sync-completion-not-at-child-end", "parent ended in step %d, child in step %d" % (pt["step"], last_child["step"])))
                if sc["shape"] == "plain" and last_child is not None and abs(pt["t"] - (t0 + dur)) > EPS:
                    fails.append(("sync-completion-instant", "parent ended at +%.3f, child takes %s" % (pt["t"] - t0, dur)))
        # every child ends at most once, whatever made it end (its own run, or the parent letting go of it)
        for c in children:
            ends = [n["body"]["detail"]["status"] for n in w.notifications if (n["body"].get("detail") or {}).get("executionArn") == c and n["body"]["detail"]["status"] != "RUNNING"]
            if len(ends) > 1 and not sc.get("name"):
                fails.append(("child-ended-%d-times" % len(ends), "%s: terminal notifications %r" % (c, ends)))
        for e in w.engine_exceptions:
            fails.append(("engine-callback-exception:%s:%s" % (e["type"], e["where"]), json.dumps(e)))
        if w.broker.protocol_errors:
            fails.append(("protocol-error", repr(w.broker.protocol_errors[:2])))
    finally:
        w.close()
    return fails


def check_sync_result(w, sc, rr, children, want_in, want_out, child_sm):
    fails = []
    form = sc["form"]
    if not isinstance(rr, dict):
        return [("sync-result-not-object", repr(rr))]
    missing = [k for k in DOCUMENTED if k not in rr]
    if missing:
        return [("sync-result-field-names", "missing %r; result has keys %r" % (missing, sorted(rr)))]
    if rr["ExecutionArn"] not in children or rr["StateMachineArn"] != child_sm or rr["Status"] != "SUCCEEDED" or rr["Name"] != rr["ExecutionArn"].rpartition(":")[2]:
        fails.append(("sync-result-values", "identity fields wrong: %r" % rr))
    if rr["ExecutionArn"] != child_sm.replace(":stateMachine:", ":execution:") + ":" + str(rr["Name"]):
        fails.append(("child-arn-not-derived-from-its-machine", "ExecutionArn %r for a child of %r" % (rr["ExecutionArn"], child_sm)))
    if sc.get("name") and sc["shape"] != "map" and rr["Name"] != sc["name"]:
        fails.append(("sync-result-values", "Name %r, requested %r" % (rr["Name"], sc["name"])))
    try:
        if form == "sync2":
            got_in, got_out = rr["Input"], rr["Output"]
            if isinstance(got_out, str) and not isinstance(want_out, str):
                fails.append(("sync2-output-not-json", repr(got_out)))
        else:
            if not isinstance(rr["Output"], str) or not isinstance(rr["Input"], str):
                fails.append(("sync-output-not-string", "Output %r Input %r" % (rr["Output"], rr["Input"])))
                got_in, got_out = rr["Input"], rr["Output"]
            else:
                got_in, got_out = json.loads(rr["Input"]), json.loads(rr["Output"])
        if got_out != want_out:
            fails.append(("sync-result-values", "Output %r, the child produced %r" % (got_out, want_out)))
        if got_in != want_in:
            fails.append(("sync-result-values", "Input %r, the child was given %r" % (got_in, want_in)))
    except ValueError as e:
        fails.append(("sync-result-values", "Input/Output not JSON text: %r" % rr))
    if not all(isinstance(rr[k], (int, float)) and not isinstance(rr[k], bool) for k in ("StartDate", "StopDate")) or rr["StopDate"] < rr["StartDate"]:
        fails.append(("sync-result-values", "dates %r %r" % (rr["StartDate"], rr["StopDate"])))
    if sc["child_type"] == "STANDARD":
        st, desc = w.describe_execution(rr["ExecutionArn"])
        if st == 200:
            # the child's own record is not altered by reporting it to the parent
            for k, want in (("input", want_in), ("output", want_out)):
                v = desc.get(k)
                if not isinstance(v, str):
                    fails.append(("child-record-altered", "DescribeExecution(child).%s is %r, not a JSON string" % (k, v)))
                else:
                    try:
                        if json.loads(v) != want:
                            fails.append(("child-record-altered", "DescribeExecution(child).%s is %r, expected %r" % (k, v, want)))
                    except ValueError:
                        fails.append(("child-record-altered", "DescribeExecution(child).%s is %r, not JSON text" % (k, v)))
            for k, v in desc.items():
                if v is None:
                    continue
                pk = pascal(k)
                if pk not in rr:
                    fails.append(("sync-result-field-names", "DescribeExecution field %s is not in the result as %s (keys %r)" % (k, pk, sorted(rr))))
                elif k not in ("input", "output") and rr[pk] != v:
                    fails.append(("sync-result-values", "%s=%r but DescribeExecution.%s=%r" % (pk, rr[pk], k, v)))
        else:
            fails.append(("sync-child-not-describable", repr(desc)))
    return fails


# ----------------------------------------------------------------- token family
def decode_token(tok):
    """(correlation id, reply queue) when the token has the documented shape, else None."""
    try:
        raw = base64.b64decode(bytes(tok, "utf-8"), validate=False).decode("utf-8")
    except Exception:
        return None
    parts = raw.split(":")
    if len(parts) != 2 or not parts[0].endswith(".waitForTaskToken"):
        return None
    return parts[0], parts[1]


def b64(s):
    return base64.b64encode(s.encode("utf-8")).decode("ascii")


def run_token(sc):
    from .. import world as W
    from ..harness import detail_outcome
    W.install()
    import pika
    fails = []
    w = W.World(seed=15, tick=0.0, store="redis" if sc.get("via_other") else "file")     # two instances share the Redis-backed stores
    w.eager_time = False
    try:
        eng = w.add_engine("A")
        # the callback may be served by another instance than the one that launched the task (a load balancer in front of the API): the token names the reply queue to use
        api_eng = w.add_engine("B") if sc.get("via_other") else eng
        form = sc["form"]
        T = sc.get("timeout")
        tasks = []          # model: dict(exec, attempt, token, t, deadline, state, result)
        log = []
        skipped = [0]

        def current(i):
            ts = [t for t in tasks if t["exec"] == i]
            return ts[-1] if ts else None

        def expire(now):
            for t in tasks:
                if t["state"] == "pending" and t["deadline"] is not None and now >= t["deadline"]:
                    t["state"], t["result"] = "done", ("timeout",)

        def resolve(variant, i, a):
            mine = next((t for t in tasks if t["exec"] == i and t["attempt"] == a), None)
            tok = mine["token"]
            dec = decode_token(tok)
            if variant in ("valid", "dup"):
                return tok
            if variant == "old":
                prev = next((t for t in tasks if t["exec"] == i and t["attempt"] == a - 1), None)
                return prev["token"] if prev else None
            if variant == "other":
                o = current(1 - i)
                return o["token"] if o else None
            if variant == "truncated":
                return tok[:-sc.get("trunc", 3)]
            if dec is None:
                return None
            corr, rq = dec
            if variant == "bad_suffix":
                return b64(corr[:-len(".waitForTaskToken")] + ":" + rq)
            if variant == "three_parts":
                return b64(corr + ":" + rq + ":x")
            if variant == "garbage":
                return "!!not-base64!!"
            if variant == "forged":
                return b64("00000000-0000-4000-8000-00000000beef.waitForTaskToken:" + rq)
            if variant == "wrong_queue":
                return b64(corr + ":asl_workflow_reply_to-nobody")
            raise HarnessError("unknown token variant %r" % variant)

        def engine_publishes():
            return sum(1 for o in w.broker.oplog if o["kind"] == "publish" and str(o["owner"]).startswith("engine:"))

        def fire(i, a, act):
            now = w.clock.now
            expire(now)
            if act["kind"] in ("reply", "reply_error"):
                mine = next(t for t in tasks if t["exec"] == i and t["attempt"] == a)
                value = act["output"] if act["kind"] == "reply" else {"errorType": "WorkerErr", "errorMessage": "w"}
                if act["kind"] == "reply_error" and mine["state"] == "pending":
                    mine["state"], mine["result"] = "done", ("failure", "WorkerErr", "w")
                w.harness_channel.basic_publish("", mine["reply_to"], json.dumps(value),
                                                pika.BasicProperties(correlation_id=mine["corr"], content_type="application/json"))
                log.append({"t": now, "exec": i, "attempt": a, "act": act["kind"]})
                return
            tok = resolve(act["token"], i, a)
            if tok is None:
                skipped[0] += 1
                return
            params = {"taskToken": tok}
            if act["kind"] == "success":
                action = "SendTaskSuccess"
                # "raw": the output argument is a JSON value instead of the documented JSON text (a caller's mistake): refused or accepted, never an internal error
                params["output"] = act["output"] if act.get("raw") else json.dumps(act["output"])
            else:
                action = "SendTaskFailure"
                if act.get("error") is not None:
                    params["error"] = act["error"]
                if act.get("cause") is not None:
                    params["cause"] = act["cause"]
            before = engine_publishes()
            status, body = api_eng.api(action, params)
            published = engine_publishes() - before
            wf = decode_token(tok) is not None
            target = next((t for t in tasks if t["token"] == tok), None)
            live = target is not None and target["state"] == "pending"
            log.append({"t": now, "exec": i, "attempt": a, "act": action, "variant": act["token"], "status": status, "wellformed": wf, "live": live})
            if status >= 500:
                fails.append(("callback-api-internal-error:%s" % action, "%s(%r) -> %s %r" % (action, {k: v for k, v in params.items() if k != "taskToken"}, status, body)))
            if not wf:
                typ = body.get("__type", "") if isinstance(body, dict) else ""
                # (with an output that is not JSON text either, the call may be refused for that instead)
                if act.get("raw") and status == 400 and typ in ("MissingRequiredParameter", "InvalidOutput"):
                    pass
                elif status != 400 or "InvalidToken" not in typ:
                    fails.append(("malformed-token-not-InvalidToken:%s" % act["token"], "%s with %s token -> %s %r" % (action, act["token"], status, body)))
                if published:
                    fails.append(("malformed-token-had-effect:%s" % act["token"], "%d messages published" % published))
            elif live:
                if act.get("raw") and 400 <= status < 500 and not published:
                    pass        # refused without effect
                elif status != 200:
                    fails.append(("valid-token-refused", "%s -> %s %r" % (action, status, body)))
                else:
                    target["state"] = "done"
                    target["result"] = ("success", act["output"]) if act["kind"] == "success" else ("failure", act.get("error"), act.get("cause"))
            elif target is None and status == 200:
                fails.append(("unknown-token-accepted:%s" % act["token"], "%s with a well-formed token naming no task answered 200" % action))

        def tokfn(idx, payload, props):
            if form == "child" and not (isinstance(payload, dict) and "token" in payload):
                return [(0, {"child": "done"})]
            tok, i = payload["token"], payload["x"]
            a = len([t for t in tasks if t["exec"] == i])
            now = w.clock.now
            expire(now)
            rec = {"exec": i, "attempt": a, "token": tok, "t": now, "deadline": (now + T) if T else None, "state": "pending", "result": None,
                   "corr": props.correlation_id, "reply_to": props.reply_to}
            tasks.append(rec)
            stream = sc["execs"][i]["attempts"]
            acts = stream[a] if a < len(stream) else []
            base = 0.125 * i + 0.0625 * a
            for act in acts:
                w.broker.call_later(None, act["at"] + base, (lambda i=i, a=a, act=act: fire(i, a, act)), label="callback:%d.%d:%s" % (i, a, act["kind"]))
            return [(0, {"child": "done"})] if form == "child" else []

        w.add_worker("tokfn", tokfn)
        retry = [{"ErrorEquals": ["RetryMe"], "MaxAttempts": 1, "IntervalSeconds": 1, "BackoffRate": 1.0}] if sc.get("retry") else None
        if form == "invoke":
            task = {"Type": "Task", "Resource": TOKEN_FORMS["invoke"], "End": True,
                    "Parameters": {"FunctionName": W.fn_arn("tokfn"), "Payload": {"token.$": "$$.Task.Token", "x.$": "$.x"}}}
        else:
            st, r = w.create_state_machine("tchild", {"StartAt": "C", "States": {"C": {"Type": "Task", "Resource": W.fn_arn("tokfn"), "End": True}}})
            if st != 200:
                raise HarnessError("token child machine refused %r" % (r,))
            task = {"Type": "Task", "Resource": TOKEN_FORMS["child"], "End": True,
                    "Parameters": {"StateMachineArn": W.sm_arn("tchild"), "Input": {"token.$": "$$.Task.Token", "x.$": "$.x"}}}
        if T:
            task["TimeoutSeconds"] = T
        if retry:
            task["Retry"] = retry
        st, r = w.create_state_machine("tok", {"StartAt": "T", "States": {"T": task}})
        if st != 200:
            raise HarnessError("token machine refused %r" % (r,))
        t0 = w.clock.now
        arns = []
        for i in range(len(sc["execs"])):
            st, r = w.start_execution(W.sm_arn("tok"), {"x": i}, name="t%d" % i)
            if st != 200:
                raise HarnessError("start refused %r" % (r,))
            arns.append(r["executionArn"])
        res = w.run(sc.get("schedule", ()), max_steps=6000, until=quiet(100))
        if res == "max_steps":
            fails.append(("no-quiescence", "still busy after 6000 steps"))
        expire(w.clock.now)
        for i, arn in enumerate(arns):
            mine = [t for t in tasks if t["exec"] == i]
            term = first_terminal(w, arn)
            d = term["body"]["detail"] if term else None
            if not mine:
                fails.append(("token-task-never-requested", "execution %d" % i))
                continue
            if len({t["token"] for t in mine}) != len(mine):
                fails.append(("token-reused-across-attempts", repr([t["token"] for t in mine])))
            # expected number of attempts
            exp_attempts = 1
            r0 = mine[0]["result"]
            if retry and r0 and r0[0] == "failure" and r0[1] == "RetryMe":
                exp_attempts = 2
            if len(mine) != exp_attempts:
                fails.append(("token-attempt-count", "execution %d: %d requests, expected %d (first attempt %r)" % (i, len(mine), exp_attempts, r0)))
                continue
            last = mine[-1]
            rr = last["result"]
            if rr is None:
                if d is not None:
                    fails.append(("token-task-completed-without-callback", "execution %d ended %r with no accepted callback; log %r" % (i, detail_outcome(d), log)))
            elif d is None:
                fails.append(("token-task-not-completed", "execution %d still running, expected %r; log %r" % (i, rr, log)))
            elif rr[0] == "success":
                if d["status"] != "SUCCEEDED" or json.loads(d["output"]) != rr[1]:
                    inband = isinstance(rr[1], dict) and "errorType" in rr[1]
                    fails.append(("token-wrong-result:success" + (":inband-errorType" if inband else ""), "execution %d ended %r, SendTaskSuccess supplied %r" % (i, detail_outcome(d), rr[1])))
            elif rr[0] == "failure":
                ok = d["status"] == "FAILED" and (rr[1] in (None, "") or d.get("error") == rr[1]) and (rr[2] in (None, "") or rr[2] in (d.get("cause") or ""))
                if not ok:
                    fails.append(("token-wrong-result:failure", "execution %d ended %r, failure supplied %r" % (i, detail_outcome(d), rr[1:])))
            elif rr[0] == "timeout":
                if d["status"] != "FAILED" or d.get("error") != "States.Timeout":
                    fails.append(("token-wrong-result:timeout", "execution %d ended %r, expected States.Timeout" % (i, detail_outcome(d))))
            ends = [n for n in w.notifications_for(arn) if n["body"]["detail"]["status"] != "RUNNING"]
            if len(ends) > 1:
                fails.append(("token-task-completed-more-than-once", "execution %d has %d terminal notifications" % (i, len(ends))))
        for e in w.engine_exceptions:
            fails.append(("engine-callback-exception:%s:%s" % (e["type"], e["where"]), json.dumps(e)))
        if w.broker.protocol_errors:
            fails.append(("protocol-error", repr(w.broker.protocol_errors[:2])))
        sc["_log"] = log[:12]
    finally:
        w.close()
    return fails


def run_relaunch(sc):
    """
    A synchronous launch (with TimeoutSeconds T, optionally a fixed child Name) whose child fails early is retried: the second child is launched while the
    first launch's deadline has not passed yet and is still running when it does. The retried task completes exactly when *its* child ends.
    """
    from .. import world as W
    fails = []
    w = W.World(seed=15, tick=0.0)
    w.eager_time = False
    try:
        w.add_engine("A")
        d1, d2, T, iv = sc["d1"], sc["d2"], sc["timeout"], sc["interval"]
        w.add_worker("childfn", lambda i, p, props: [(d1, {"errorType": "ChildErr", "errorMessage": "first attempt"})] if i == 0 else [(d2, {"got": p, "attempt": i})])
        child_type = "EXPRESS" if sc["form"] == "sdk_sync" else sc["child_type"]
        st, r = w.create_state_machine("child", {"StartAt": "C1", "States": {"C1": {"Type": "Task", "Resource": W.fn_arn("childfn"), "End": True}}}, type_=child_type)
        if st != 200:
            raise HarnessError("child machine refused: %r" % (r,))
        params = {"StateMachineArn": W.sm_arn("child"), "Input": {"a": 1}}
        if sc.get("name"):
            params["Name"] = sc["name"]
        launch = {"Type": "Task", "Resource": FORMS[sc["form"]], "Parameters": params, "TimeoutSeconds": T, "End": True,
                  "Retry": [{"ErrorEquals": ["States.TaskFailed"], "IntervalSeconds": iv, "MaxAttempts": 1, "BackoffRate": 1.0}]}
        st, r = w.create_state_machine("parent", {"StartAt": "L", "States": {"L": launch}})
        if st != 200:
            raise HarnessError("parent machine refused: %r" % (r,))
        t0 = w.clock.now
        st, r = w.start_execution(W.sm_arn("parent"), {"p": 1}, name="p1")
        parent = r["executionArn"]
        res = w.run(sc.get("schedule", ()), max_steps=4000, until=quiet(100))
        pt = first_terminal(w, parent)
        want_end = d1 + iv + d2
        n_req = len(w.workers["childfn"].requests)
        if n_req != 2:
            fails.append(("relaunch:child-task-requests", "%d requests to the child's task, expected 2" % n_req))
        if pt is None:
            fails.append(("relaunch:parent-not-terminal", "parent never ended"))
        else:
            d = pt["body"]["detail"]
            if d["status"] != "SUCCEEDED":
                fails.append(("relaunch:parent-%s-%s" % (d["status"], d.get("error")), "the retried launch's child ends at +%.1f s (first launch at +0 with TimeoutSeconds %s, retry at +%.1f): parent ended %s %s at +%.3f" % (
                    want_end, T, d1 + iv, d["status"], d.get("error"), pt["t"] - t0)))
            else:
                if abs(pt["t"] - t0 - want_end) > EPS:
                    fails.append(("relaunch:completion-instant", "parent ended at +%.3f, the second child ends at +%.3f" % (pt["t"] - t0, want_end)))
                out = json.loads(d["output"])
                got = out.get("Output") if isinstance(out, dict) else None
                if isinstance(got, str):
                    try:
                        got = json.loads(got)
                    except ValueError:
                        pass
                if got != {"got": {"a": 1}, "attempt": 1}:
                    fails.append(("relaunch:result-not-of-second-child", "task result %r" % (out,)))
        for e in w.engine_exceptions:
            fails.append(("engine-callback-exception:%s:%s" % (e["type"], e["where"]), json.dumps(e)))
    finally:
        w.close()
    return fails


def run_scenario(sc):
    sc = copy.deepcopy(sc)
    sc.pop("_log", None)
    if sc["family"] == "relaunch":
        return run_relaunch(sc)
    return run_child(sc) if sc["family"] == "child" else run_token(sc)


# ------------------------------------------------------------------ generators
def strategies():
    from hypothesis import strategies as st
    sched = st.lists(st.integers(0, 5), max_size=40)
    inputs = st.sampled_from([{"a": 1}, [1, 2], "s", 7, {}, {"nested": {"l": [1, {"b": None}]}}, "__omitted__"])

    child = st.fixed_dictionaries({
        "family": st.just("child"),
        "form": st.sampled_from(["async", "sync", "sync", "sync2", "sync2", "sdk_sync"]),
        "parent_type": st.sampled_from(["STANDARD", "STANDARD", "STANDARD", "EXPRESS"]),
        "child_type": st.sampled_from(["STANDARD", "STANDARD", "EXPRESS"]),
        "child": st.sampled_from(["succeed", "succeed", "two_step", "fail_task", "fail_state", "slow_wait", "slow_task", "slow_nested", "wait_then_slow_task", "fanout_then_slow_task", "slow_longform_task", "slow_nested2", "fail_in_parallel"] + sorted(FALSY_OUTPUTS)),
        "child_exists": st.sampled_from([True] * 9 + [False]),
        "child_delay": st.sampled_from([0, 0.5, 3, 8]),
        "shape": st.sampled_from(["plain", "plain", "plain", "parallel", "parallel", "map"]),
        "timeout": st.sampled_from([None, None, 5, 5, 50]),
        "sib_ok": st.booleans(),
        "sib_delay": st.sampled_from([0.25, 2, 6, 12]),
        "child_input": inputs,
        # (one launch in eight carries a Name the API would refuse: enough to reach each of them in every quick run without thinning out the other classes)
        "name": st.sampled_from([None] * 26 + ["kid"] * 12 + ["k.i-d_1", "n" * 80] * 2 + ["a:b", "a/b", "x y", "n" * 81, 5, "tab\t"]),
        "resource_region": st.sampled_from(["local", "local", "", "eu-west-1"]),
        "schedule": sched,
    }).map(fix_child)

    outputs = st.sampled_from([{"ok": 1}, [1, 2], "str", 0, False, None, {"nested": {"a": [1]}}, {"error": "x"}, {"errorType": "E"}, ""])
    variants = st.sampled_from(["valid"] * 6 + ["dup", "old", "other", "truncated", "bad_suffix", "three_parts", "garbage", "forged", "wrong_queue"])
    action = st.one_of(
        st.fixed_dictionaries({"kind": st.just("success"), "token": variants, "output": outputs}),
        st.fixed_dictionaries({"kind": st.just("success"), "token": variants, "output": outputs, "raw": st.sampled_from([False, False, False, True])}),
        st.fixed_dictionaries({"kind": st.just("failure"), "token": variants, "error": st.sampled_from(["RetryMe", "RetryMe", "Boom", None]),
                               "cause": st.sampled_from(["why", None, ""])}),
        st.fixed_dictionaries({"kind": st.just("reply"), "output": st.sampled_from([{"r": 1}, "x", None, [0]])}),
        st.fixed_dictionaries({"kind": st.just("reply_error")}),
    )
    OFFS = [0.5, 1, 1.5, 2, 3, 4, 5.5, 6.5, 7.5]

    def stream():
        return st.lists(st.tuples(st.sampled_from(OFFS), action), max_size=4, unique_by=lambda t: t[0]).map(
            lambda l: [dict(a, at=o) for o, a in sorted(l, key=lambda t: t[0])])
    execs = st.lists(st.fixed_dictionaries({"attempts": st.lists(stream(), min_size=1, max_size=2)}), min_size=1, max_size=2)
    token = st.fixed_dictionaries({
        "family": st.just("token"), "form": st.sampled_from(["invoke", "invoke", "child"]), "timeout": st.sampled_from([None, 6, 6]),
        "retry": st.booleans(), "execs": execs, "trunc": st.sampled_from([1, 2, 3, 5, 9, 30]), "schedule": sched,
        "via_other": st.sampled_from([False, False, True]),
    }).map(fix_token)
    # second launch at d1+interval, still running at the first launch's deadline T, and over before its own: d1+interval < T < d1+interval+d2, d2 < T
    relaunch = st.fixed_dictionaries({"family": st.just("relaunch"), "form": st.sampled_from(["sync", "sync2", "sdk_sync"]), "name": st.sampled_from([None, "kid", "kid"]),
                                      "child_type": st.sampled_from(["STANDARD", "EXPRESS"]), "d1": st.sampled_from([0.5, 2]), "interval": st.sampled_from([1, 2]), "d2": st.sampled_from([6.25, 8.5]),
                                      "timeout": st.sampled_from([9, 10]), "schedule": sched})
    return st.one_of(child, child, child, child, token, token, token, token, relaunch)


def fix_child(sc):
    sc = dict(sc)
    if sc["child"] == "slow_nested2":
        sc["child_input"] = {"two": [1, 2]}      # the child iterates over $.two
        if sc["shape"] == "map":
            sc["shape"] = "plain"                # (launched from a Map the child's input would be the parent's item)
    if sc["child"] == "fanout_then_slow_task" and not isinstance(sc["child_input"], dict):
        sc["child_input"] = {"a": 1}    # the child places its Parallel state's result under $.par: its input has to be an object
    if sc["shape"] == "map":
        sc["name"] = None
    if sc["shape"] != "parallel":
        sc.pop("sib_ok"), sc.pop("sib_delay")
    else:
        # no ties between the sibling's reply, the child's end and the time-out
        dur = child_duration(sc)
        if sc["sib_delay"] in (dur, sc.get("timeout")):
            sc["sib_delay"] += 0.375
    if sc.get("timeout") and sc["timeout"] == child_duration(sc):
        sc["timeout"] += 1
    if sc["form"] == "sdk_sync" and sc["child_type"] == "STANDARD" and sc["child_exists"] and sc.get("schedule") and sc["schedule"][0] % 2:
        sc["child_type"] = "EXPRESS"    # keep the valid form of startSyncExecution well represented
    return sc


def fix_token(sc):
    sc = dict(sc)
    for e in sc["execs"]:
        for acts in e["attempts"]:
            for a in acts:
                if a["kind"] in ("reply", "reply_error") and sc["form"] == "child":
                    a["kind"], a["token"], a["output"] = "success", "forged", {"ok": 1}
    return sc


def excluded(sc):
    """Cases set aside because they only re-trigger a recorded finding (counted)."""
    if sc["family"] == "token":
        for e in sc["execs"]:
            for acts in e["attempts"]:
                for a in acts:
                    if a["kind"] == "success" and isinstance(a.get("output"), dict) and "errorType" in a["output"]:
                        return "C15-F45"
    return None


def nontrivial(sc):
    if sc["family"] == "relaunch":
        return True
    if sc["family"] == "child":
        if invalid_reason(sc):
            return True
        if sc["form"] == "async":
            return sc["shape"] != "plain" and child_duration(sc) > 0
        return child_duration(sc) > 0 or sc["child"].startswith("fail")
    n = 0
    odd = False
    for e in sc["execs"]:
        for acts in e["attempts"]:
            for a in acts:
                if a["kind"] in ("success", "failure"):
                    n += 1
                    odd = odd or a["token"] != "valid"
                else:
                    odd = True
    return n >= 2 or odd


def classes(sc):
    if sc["family"] == "relaunch":
        return ["family-relaunch", "form-" + sc["form"], "fixed-name" if sc.get("name") else "generated-name"]
    if sc["family"] == "child":
        c = ["family-child", "form-" + sc["form"], "resource-region-" + (sc.get("resource_region", "local") or "empty"), "shape-" + sc["shape"], "child-" + sc["child"], "parent-" + sc["parent_type"], "childtype-" + sc["child_type"]]
        r = invalid_reason(sc)
        if r:
            c.append("invalid-" + r)
        if sc.get("timeout") and sc["timeout"] < child_duration(sc) and sc["form"] != "async":
            c.append("cut-by-timeout")
        if sc["shape"] == "parallel" and not sc["sib_ok"] and sc["sib_delay"] < child_duration(sc) and sc["form"] != "async":
            c.append("cut-by-sibling-failure")
        if any(sc.get("schedule", ())):
            c.append("schedule-deviating")
        return c
    c = ["family-token", "form-" + sc["form"], "execs-%d" % len(sc["execs"])] + (["retry"] if sc["retry"] else []) + (["timeout"] if sc["timeout"] else []) + (["callback-served-by-another-instance"] if sc.get("via_other") else [])
    for e in sc["execs"]:
        for acts in e["attempts"]:
            for a in acts:
                c.append("cb-" + a["kind"] + (":" + a["token"] if "token" in a else ""))
    return sorted(set(c))


def shard(k, seed, tier, examples=60):
    import hypothesis
    from hypothesis import given, settings, HealthCheck, Phase
    camp = Campaign(PID, rule=RULE, tier=tier, seed=seed)

    @hypothesis.seed(seed)
    @settings(max_examples=examples, deadline=None, database=None, suppress_health_check=list(HealthCheck), phases=[Phase.generate])
    @given(strategies())
    def run(sc):
        ex = excluded(sc)
        if ex:
            camp.exclude(ex)
            return
        try:
            fails = run_scenario(sc)
        except HarnessError as e:
            camp.harness_error("%s in %s" % (e, json.dumps(sc)[:600]))
            return
        except Exception as e:
            camp.harness_error("scenario %s crashed: %r %s" % (json.dumps(sc)[:600], e, traceback.format_exc()[-900:]))
            return
        camp.case(sc, nontrivial=bool(nontrivial(sc)), classes=classes(sc))
        for b, d in fails:
            camp.fail(b, sc, d)
    run()
    return camp.export()


def replay_case(case):
    return run_scenario(case)


def main(tier, seed, replay=None):
    camp = Campaign(PID, rule=RULE, tier=tier, seed=seed)
    camp.assumptions = [
        "virtual time only advances when no delivery is enabled (deliveries are instantaneous relative to the seconds-scale delays), so that the order of a callback and a "
        "deadline is decided by their instants; instants of callbacks, deadlines, sibling replies and child ends never coincide (no ties are generated)",
        "'exactly when the child becomes terminal' is checked as: the parent's terminal notification is published in the same handler invocation as the child's, at the child's end instant",
        "a well-formed token whose correlation id names a task that already completed (duplicate, late) may be answered 200: the property only requires that it affects no task",
        "the error reply of an invoke.waitForTaskToken worker fails the task (as a failing Lambda does); a non-error ordinary reply is ignored",
        "SendTaskSuccess outputs with a top-level 'errorType' member are set aside (in-band error convention, recorded finding) and counted under 'excluded'",
    ]
    if replay:
        with open(replay) as fp:
            rec = json.load(fp)
        for b, d in replay_case(rec["case"]):
            camp.fail(b, rec["case"], d)
        camp.case(rec["case"], True)
        camp.min_nontrivial = 0
        camp.write_evidence = False
        return camp.finish()
    camp.run_witnesses(replay_case)
    # directed: a synchronous child that is past an elapsed Wait and blocked on a Task when the parent lets go of it (time-out, failing sibling)
    for form in ("sync", "sync2", "sdk_sync"):
        for shape, extra_ in (("plain", {"timeout": 5}), ("parallel", {"timeout": None, "sib_ok": False, "sib_delay": 6}), ("parallel", {"timeout": 5, "sib_ok": True, "sib_delay": 0.25})):
          for ckind in ("wait_then_slow_task", "fanout_then_slow_task", "slow_longform_task", "slow_nested2"):
            sc = dict({"family": "child", "form": form, "parent_type": "STANDARD", "child_type": "EXPRESS" if form == "sdk_sync" else "STANDARD", "child": ckind, "child_exists": True,
                       "child_delay": 0, "shape": shape, "child_input": {"two": [1, 2]} if ckind == "slow_nested2" else {"a": 1}, "name": None, "resource_region": "local", "schedule": []}, **extra_)
            try:
                fails = run_scenario(sc)
            except Exception as e:
                camp.harness_error("directed scenario %s crashed: %r" % (json.dumps(sc), e))
                continue
            camp.case(sc, nontrivial=True, classes=classes(sc) + ["directed"])
            for b, d in fails:
                camp.fail(b, sc, d)
    if tier == "thorough":
        run_shards(camp, __name__, "shard", 16, examples=1500)
    else:
        run_shards(camp, __name__, "shard", 8, examples=140)
    return camp.finish()
