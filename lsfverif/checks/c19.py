"""
C19 - work is routed to the right queue/instance; messages map faithfully to AMQP.

Three generated families, all on the simulated broker with the pika stand-in:

affinity  1-3 engine instances (classic / quorum queues) run generated machines, several executions
          started through different instances and as raw events, under a generated schedule. A monitor
          over the broker's operation log checks every publish and every delivery: start events on the
          shared queue, later events only on the per-instance queue of the instance that consumed the
          start event and only delivered to it, task requests on the function's queue with that
          instance's reply queue and a correlation id, replies delivered to it; plus the declared
          queues (durable, queue type argument, single exclusive consumer on instance queues,
          non-exclusive consumers on the shared queue, prefetch).
mapping   Message objects with generated fields are sent through a Producer and received through a
          Consumer of the messaging layer (asyncio and blocking transports): body, subject,
          properties, correlation id, reply-to, ids survive; expiration arrives as a non-negative
          integer string or not at all and never upsets the channel; acknowledging one message
          acknowledges that delivery and no other.
address   address strings generated from the documented grammar are opened as Consumers / Producers on
          both transports; the queues, exchanges, bindings and consumer flags that appear at the
          broker are compared with a reference reading of the grammar, and the two transports with
          each other.
"""
import copy, json, traceback

from .. import env
from ..runner import Campaign, HarnessError, run_shards
from .. import sched as S

PID = "C19"
RULE = ("case = affinity: (machine, 1-3 executions, schedule, number of instances 1-3, queue type); mapping: (transport, message field values incl. expiration variants, ack pattern); "
        "address: (transport pair, address string from the documented grammar, role). Non-trivial = affinity: at least two instances and a delivery on a per-instance queue; "
        "mapping: an expiration other than None or a multi-message ack pattern; address: an address with options. Distinct by canonical JSON.")


# ------------------------------------------------------------------ affinity
def settled(w):
    b = w.broker
    if b.pending_returns or w.pushed or b.deliverable() or b.due_timers():
        return False
    return not [t for t in b.live_timers() if not w.is_heartbeat(t) and t.deadline - w.clock.now <= 30]


def run_affinity(c):
    from .. import world as W
    from .. import harness as H
    fails = []
    qt = c["queue_type"]
    suffix = "-qq" if qt == "quorum" else ""
    shared = "asl_workflow_events" + suffix
    w = W.World(seed=19, tick=1e-6, queue_type=qt, orphan_retention_ms=3000, capacity=c.get("capacity", 1000))
    try:
        ids = ["A", "B", "C"][:c["n_engines"]]
        w.add_engine("A")
        case = c["case"]
        st, r = w.create_state_machine("m1", case["definition"], type_=case.get("type", "STANDARD"))
        if st != 200:
            raise HarnessError("CreateStateMachine refused a generated machine: %r" % (r,))
        for i in ids[1:]:
            w.add_engine(i)         # (the file-backed definition store is read when an instance starts)
        inst_q = {i: shared + "-" + i for i in ids}
        reply_q = {i: "asl_workflow_reply_to" + suffix + "-" + i for i in ids}
        # ---- declarations
        for qn in [shared] + list(inst_q.values()) + list(reply_q.values()):
            q = w.broker.queues.get(qn)
            if q is None:
                fails.append(("queue-not-declared", qn))
                continue
            if not q.durable or q.auto_delete or q.exclusive_owner is not None:
                fails.append(("queue-not-durable-shared-named", "%s durable=%s auto_delete=%s exclusive_owner=%s" % (qn, q.durable, q.auto_delete, q.exclusive_owner is not None)))
            want_args = {"x-queue-type": "quorum"} if qt == "quorum" else None
            if (q.arguments or None) != want_args:
                fails.append(("queue-type-argument", "%s arguments %r, expected %r" % (qn, q.arguments, want_args)))
        q = w.broker.queues.get(shared)
        if q is not None:
            owners = sorted(cn.channel.owner for cn in q.consumers)
            if owners != sorted("engine:" + i for i in ids) or any(cn.exclusive for cn in q.consumers):
                fails.append(("shared-queue-consumers", "consumers %r exclusive %r" % (owners, [cn.exclusive for cn in q.consumers])))
            if any(cn.prefetch != c.get("capacity", 1000) for cn in q.consumers):
                fails.append(("prefetch-not-applied", "shared queue consumers prefetch %r" % [cn.prefetch for cn in q.consumers]))
        for i in ids:
            q = w.broker.queues.get(inst_q[i])
            if q is not None and (len(q.consumers) != 1 or not q.consumers[0].exclusive or q.consumers[0].channel.owner != "engine:" + i):
                fails.append(("instance-queue-consumer", "%s consumers %r" % (inst_q[i], [(cn.channel.owner, cn.exclusive) for cn in q.consumers])))
            q = w.broker.queues.get(reply_q[i])
            if q is not None and (len(q.consumers) != 1 or q.consumers[0].channel.owner != "engine:" + i):
                fails.append(("reply-queue-consumer", "%s consumers %r" % (reply_q[i], [(cn.channel.owner, cn.exclusive) for cn in q.consumers])))
        # a second process must not be able to consume from an instance queue
        import pika
        try:
            ch = w.harness_conn.channel()
            ch.basic_consume(inst_q[ids[0]], lambda *a: None, auto_ack=True)
            fails.append(("instance-queue-not-exclusive", "a second consumer was admitted on %s" % inst_q[ids[0]]))
        except Exception:
            pass
        # ---- run
        H.install_workers(w, case["definition"], case.get("oracle") or {})
        started = []
        for k, s_ in enumerate(c["starts"]):
            eng = ids[(k + c.get("api_offset", 0)) % len(ids)]
            if s_["mode"] == "api":
                st, r = w.start_execution(S.SM_ARN, s_["input"], name=s_.get("name", "e%d" % k), engine=eng)
                if st != 200:
                    raise HarnessError("StartExecution refused: %r" % (r,))
                started.append(r["executionArn"])
            else:
                import pika
                body = json.dumps({"data": s_["input"], "context": {"StateMachine": {"Id": S.SM_ARN}}})
                w.harness_channel.basic_publish("", shared, body, pika.BasicProperties(content_type="application/json", delivery_mode=2, message_id="raw-%d" % k if s_["mode"] == "raw-id" else None))
        poison = c.get("poison")
        if poison:
            # an uninterpretable message arrives in the middle of the run, while the instance holds other deliveries unacknowledged (Tasks and Waits in flight):
            # dropping it must acknowledge that one delivery and no other
            k = min(poison["after"], len(c["schedule"]))
            w.run(c["schedule"][:k], max_steps=w.steps + poison["after"], until=settled)
            import pika
            qn = shared if poison["queue"] == "shared" else inst_q[ids[0]]
            w.harness_channel.basic_publish("", qn, poison["body"].encode("utf8"), pika.BasicProperties(content_type="application/json"))
            res = w.run(c["schedule"][k:], max_steps=5000, until=settled)
        else:
            res = w.run(c["schedule"], max_steps=5000, until=settled)
        if res == "max_steps":
            fails.append(("no-quiescence", "still busy after 5000 steps"))
        # "acknowledging a message acknowledges that delivery and no other": every basic.ack of an engine names exactly one delivery
        acks = {}
        for o in w.broker.oplog:
            if o["kind"] == "ack" and str(o["owner"]).startswith("engine:"):
                acks.setdefault((o["seq"] if not o.get("multiple") else ("m", o["step"], o["channel"])), []).append(o["uid"])
                if o.get("multiple"):
                    fails.append(("ack-with-multiple-flag", "basic.ack(multiple=True) by %s acknowledged uid %s (step %s)" % (o["owner"], o["uid"], o["step"])))
        if w.broker.total_unacked() and res != "max_steps":
            left = [(q.name, m.uid) for conn in w.broker.connections if str(conn.owner).startswith("engine:") for ch in conn.channels for (q, m, cn) in ch.unacked.values()]
            if left:
                fails.append(("delivery-never-acknowledged", repr(left[:4])))
        # ---- monitor over the operation log
        log = w.broker.oplog
        owner = {}          # execution arn -> engine id that consumed its start event
        msg = {}            # uid -> parsed event (for event queues)
        for o in log:
            if o["kind"] == "publish" and o.get("queues") and any(str(qn).startswith(shared) for qn in o["queues"]):
                try:
                    ev = json.loads(o["body"])
                except Exception:
                    continue
                if isinstance(ev, dict) and isinstance(ev.get("context"), dict):
                    msg[o["uid"]] = ev
        def is_start(ev):
            st_ = ev["context"].get("State") or {}
            return not st_.get("Name") and "Branch" not in st_
        per_instance = 0
        for o in log:
            if o["kind"] == "deliver" and o["uid"] in msg and str(o["owner"]).startswith("engine:"):
                ev = msg[o["uid"]]
                eng = o["owner"].split(":", 1)[1]
                arn = (ev["context"].get("Execution") or {}).get("Id")
                if is_start(ev):
                    if o["queue"] != shared:
                        fails.append(("start-event-not-on-shared-queue", "start event delivered from %s" % o["queue"]))
                    # (executions started from raw events get their ARN when the start event is handled: learn it from the next publish of that handler)
                    if arn:
                        owner.setdefault(arn, eng)
                else:
                    per_instance += 1 if o["queue"] != shared else 0
                    if o["queue"] == shared:
                        fails.append(("later-event-on-shared-queue", "event for state %r of %s delivered from the shared queue" % (ev["context"]["State"].get("Name"), arn)))
                    if arn in owner and owner[arn] != eng:
                        fails.append(("event-delivered-to-other-instance", "event for %s (owned by %s) was delivered to %s from %s" % (arn, owner[arn], eng, o["queue"])))
                    elif arn not in owner:
                        owner[arn] = eng
                    if o["queue"] != inst_q.get(eng):
                        fails.append(("event-delivered-from-foreign-queue", "instance %s received an event from %s" % (eng, o["queue"])))
        for o in log:
            if o["kind"] != "publish" or not str(o["owner"]).startswith("engine:"):
                continue
            eng = o["owner"].split(":", 1)[1]
            if o["uid"] in msg:
                ev = msg[o["uid"]]
                arn = (ev["context"].get("Execution") or {}).get("Id")
                rk = o["routing_key"]
                if is_start(ev):
                    if rk != shared:
                        fails.append(("start-event-not-published-to-shared-queue", "routing key %r" % rk))
                else:
                    own = owner.get(arn, eng)
                    if rk != inst_q.get(own):
                        fails.append(("later-event-published-to-wrong-queue", "event of %s (owner %s) published by %s with routing key %r" % (arn, own, eng, rk)))
                    if eng != own:
                        fails.append(("event-published-by-other-instance", "event of %s (owner %s) published by %s" % (arn, own, eng)))
                    if not o.get("message_id"):
                        fails.append(("event-without-message-id", "routing key %r" % rk))
            elif o.get("reply_to"):
                # a task request
                if o["reply_to"] != reply_q.get(eng):
                    fails.append(("request-reply-to-foreign-queue", "request by %s has reply_to %r" % (eng, o["reply_to"])))
                if not o.get("correlation_id"):
                    fails.append(("request-without-correlation-id", "request to %r" % o["routing_key"]))
                if o.get("exchange") != "" or o["routing_key"] not in w.workers:
                    fails.append(("request-not-to-function-queue", "exchange %r routing key %r" % (o.get("exchange"), o["routing_key"])))
        for o in log:
            if o["kind"] == "deliver" and str(o.get("queue", "")).startswith("asl_workflow_reply_to") and str(o["owner"]).startswith("engine:"):
                eng = o["owner"].split(":", 1)[1]
                if o["queue"] != reply_q.get(eng):
                    fails.append(("reply-delivered-to-other-instance", "%s received a reply from %s" % (eng, o["queue"])))
        for arn in started:
            if w.terminal(arn) is None:
                fails.append(("execution-did-not-end", arn))
        for e in w.engine_exceptions:
            fails.append(("engine-callback-exception:%s:%s" % (e["type"], e["where"]), json.dumps(e)[:300]))
        if w.broker.protocol_errors:
            fails.append(("protocol-error", repr(w.broker.protocol_errors[:2])))
        info = {"per_instance_deliveries": per_instance, "owners": sorted(set(owner.values()))}
    finally:
        w.close()
    return fails, info


# ------------------------------------------------------------------ children
CHILD_FORMS = {
    "async": ("arn:aws:states:local::states:startExecution", False),
    "sync": ("arn:aws:states:local::states:startExecution.sync", True),
    "sync2": ("arn:aws:states:local::states:startExecution.sync:2", True),
    "sdk_sync": ("arn:aws:states:local::aws-sdk:sfn:startSyncExecution", True),
}


def run_children(c):
    """
    Parent executions launch child executions through every startExecution form while 2-3 instances share the queues.
    A synchronously launched child belongs to the launching instance: its start event and every later event must be
    published to and delivered from that instance's own queue (the parent's Task is completed from that instance's
    memory). An asynchronously launched child is an ordinary start event on the shared queue.
    """
    from .. import world as W
    fails = []
    qt = c["queue_type"]
    suffix = "-qq" if qt == "quorum" else ""
    shared = "asl_workflow_events" + suffix
    resource, sync = CHILD_FORMS[c["form"]]
    w = W.World(seed=19, tick=1e-6, queue_type=qt, orphan_retention_ms=3000)
    try:
        ids = ["A", "B", "C"][:c["n_engines"]]
        w.add_engine("A")
        child_type = "EXPRESS" if c["form"] == "sdk_sync" else c["child_type"]
        child = {"StartAt": "C1", "States": {"C1": {"Type": "Task", "Resource": W.fn_arn("childfn"), "Next": "C2"}, "C2": {"Type": "Wait", "Seconds": 1, "Next": "C3"}, "C3": {"Type": "Pass", "End": True}}}
        parent = {"StartAt": "L", "States": {"L": {"Type": "Task", "Resource": resource, "TimeoutSeconds": 40, "Parameters": {"StateMachineArn": W.sm_arn("child"), "Input": {"v.$": "$.v"}}, "ResultPath": "$.launch", "Next": "Z"},
                                             "Z": {"Type": "Task", "Resource": W.fn_arn("childfn"), "End": True}}}
        for nm, d, t in (("child", child, child_type), ("parent", parent, c["parent_type"])):
            st, r = w.create_state_machine(nm, d, type_=t)
            if st != 200:
                raise HarnessError("CreateStateMachine refused: %r" % (r,))
        for i in ids[1:]:
            w.add_engine(i)
        w.add_worker("childfn", lambda i, p, props: [(0, p)])
        inst_q = {i: shared + "-" + i for i in ids}
        parents = []
        for k in range(c["n_parents"]):
            st, r = w.start_execution(W.sm_arn("parent"), {"v": k}, name="p%d" % k, engine=ids[(k + c.get("api_offset", 0)) % len(ids)])
            if st != 200:
                raise HarnessError("StartExecution refused: %r" % (r,))
            parents.append(r["executionArn"])
        res = w.run(c["schedule"], max_steps=5000, until=settled)
        if res == "max_steps":
            fails.append(("children:no-quiescence", "still busy after 5000 steps"))
        log = w.broker.oplog
        msg = {}
        for o in log:
            if o["kind"] == "publish":
                try:
                    ev = json.loads(o["body"])
                except Exception:
                    continue
                if isinstance(ev, dict) and isinstance(ev.get("context"), dict) and isinstance(ev["context"].get("StateMachine"), dict):
                    msg[o["uid"]] = ev
        child_sm = W.sm_arn("child")
        owner = {}              # execution arn -> instance that consumed its start event
        launcher = {}           # child execution arn -> instance that published its start event
        n_child_events = 0
        for o in log:
            ev = msg.get(o.get("uid"))
            if ev is None or not str(o.get("owner", "")).startswith("engine:"):
                continue
            eng = o["owner"].split(":", 1)[1]
            ctx = ev["context"]
            arn = (ctx.get("Execution") or {}).get("Id")
            is_child = ctx["StateMachine"].get("Id") == child_sm
            st_ = ctx.get("State") or {}
            start = not st_.get("Name") and "Branch" not in st_
            if o["kind"] == "publish" and is_child and start:
                launcher[arn] = eng
                want = inst_q[eng] if sync else shared
                if o["routing_key"] != want:
                    fails.append(("children:%s-child-start-published-to-%s" % ("sync" if sync else "async", "shared-queue" if o["routing_key"] == shared else "other-queue"),
                                  "form %s: child start event published by %s with routing key %r, expected %r" % (c["form"], eng, o["routing_key"], want)))
            elif o["kind"] == "deliver":
                if start and arn:
                    owner.setdefault(arn, eng)
                if is_child:
                    n_child_events += 1
                    if sync and arn in launcher and eng != launcher[arn]:
                        fails.append(("children:sync-child-event-delivered-to-other-instance", "event of %s (launched by %s) delivered to %s from %s" % (arn, launcher[arn], eng, o["queue"])))
                    if not sync and not start and arn in owner and eng != owner[arn]:
                        fails.append(("children:event-delivered-to-other-instance", "event of %s (owned by %s) delivered to %s" % (arn, owner[arn], eng)))
                elif not start and arn in owner and eng != owner[arn]:
                    fails.append(("children:parent-event-delivered-to-other-instance", "event of %s (owned by %s) delivered to %s" % (arn, owner[arn], eng)))
        for k, arn in enumerate(parents):
            d = w.terminal(arn)
            if d is None:
                fails.append(("children:parent-did-not-end", "%s form %s" % (arn, c["form"])))
            elif d["status"] != "SUCCEEDED":
                fails.append(("children:parent-%s" % d["status"], "%s form %s: %s %s" % (arn, c["form"], d.get("error"), str(d.get("cause"))[:200])))
        if len(launcher) != c["n_parents"]:
            fails.append(("children:launch-count", "%d child start events for %d parents" % (len(launcher), c["n_parents"])))
        for e in w.engine_exceptions:
            fails.append(("engine-callback-exception:%s:%s" % (e["type"], e["where"]), json.dumps(e)[:300]))
        if w.broker.protocol_errors:
            fails.append(("protocol-error", repr(w.broker.protocol_errors[:2])))
        info = {"owners": sorted(set(owner.values())), "child_events": n_child_events, "launchers": sorted(set(launcher.values()))}
    finally:
        w.close()
    return fails, info


# -------------------------------------------------------------- messaging layer
class Transport:
    """A Connection + Session of the repo's messaging layer on the simulated broker."""

    def __init__(self, w, kind, label):
        from .. import world as W
        self.w, self.kind = w, kind
        w.broker.owner_label = label
        self.label = label
        if kind == "asyncio":
            import asl_workflow_engine.amqp_0_9_1_messaging_asyncio as m
            self.m = m
            self.conn = m.Connection("amqp://localhost:5672?heartbeat=0")
            self._run(self.conn.open())
            self.session = self._run(self.conn.session(auto_ack=False))
        else:
            import asl_workflow_engine.amqp_0_9_1_messaging as m
            self.m = m
            self.conn = m.Connection("amqp://localhost:5672?heartbeat=0")
            self.conn.open()
            self.session = self.conn.session(auto_ack=False)
        w.broker.owner_label = "harness"

    def _run(self, coro):
        from .. import world as W
        return W.loop().run_until_complete(coro)

    def consumer(self, address, listener):
        self.w.broker.owner_label = self.label
        try:
            if self.kind == "asyncio":
                c = self._run(self.session.consumer(address))
                self._run(c.set_message_listener(listener))
            else:
                c = self.session.consumer(address)
                c.set_message_listener(listener)
        finally:
            self.w.broker.owner_label = "harness"
        return c

    def producer(self, address):
        self.w.broker.owner_label = self.label
        try:
            if self.kind == "asyncio":
                return self._run(self.session.producer(address))
            return self.session.producer(address)
        finally:
            self.w.broker.owner_label = "harness"

    def message(self, *a, **kw):
        return self.m.Message(*a, **kw)


def drain(w, limit=200):
    n = 0
    while n < limit and (w.broker.deliverable() or w.broker.pending_returns):
        w.step(0)
        n += 1


EXPIRATIONS = [None, 0, 1, 1000, 1500.7, "250", "12.5", -1, -0.5, "-3", "abc", "", "1e3", "inf", "nan", "1e400", True, " 7 "]


def run_mapping(c):
    from .. import world as W
    fails = []
    w = W.World(seed=19, tick=0.0)
    try:
        t = Transport(w, c["transport"], "client")
        got = []
        cons = t.consumer('mapq; {"node": {"durable": true}}', lambda m: got.append(m))
        prod = t.producer("mapq")
        sent = []
        for k, f in enumerate(c["messages"]):
            kw = dict(properties=copy.deepcopy(f["properties"]), content_type=f["content_type"], correlation_id=f["correlation_id"], reply_to=f["reply_to"], expiration=f["expiration"],
                      message_id=f["message_id"], priority=f["priority"], type=f["type"], durable=f["durable"])
            if f["subject_via_property"]:
                m = t.message(f["body"], **kw)
            else:
                m = t.message(f["body"], subject=None, **kw)
            try:
                prod.send(m)
                sent.append(f)
            except Exception as e:
                fails.append(("send-raises:%s:expiration=%r" % (type(e).__name__, f["expiration"]), "%r" % (e,)))
        drain(w)
        if w.broker.protocol_errors:
            fails.append(("invalid-amqp-property-sent:%s" % w.broker.protocol_errors[0][1], repr(w.broker.protocol_errors[:2])))
        # the expiration property as it went over the wire (a message whose TTL is 0 expires unless a consumer can take it at once, so it may never arrive)
        pubs = [o for o in w.broker.oplog if o["kind"] == "publish" and o["owner"] == "client"]
        if len(pubs) != len(sent):
            fails.append(("publish-count", "%d sends, %d publishes" % (len(sent), len(pubs))))
        for f, o in zip(sent, pubs):
            exp = o.get("expiration")
            if f["expiration"] is None:
                if exp is not None:
                    fails.append(("message-field-not-intact:expiration", "expiration %r published for None" % (exp,)))
            elif not (isinstance(exp, str) and exp.isdigit()):
                fails.append(("message-field-not-intact:expiration", "expiration %r published for %r: not a non-negative integer" % (exp, f["expiration"])))
            else:
                try:
                    v = float(f["expiration"])
                    if v == v and v not in (float("inf"), float("-inf")) and v >= 0 and int(exp) != int(v):
                        fails.append(("message-field-not-intact:expiration", "expiration %r published for %r" % (exp, f["expiration"])))
                except (TypeError, ValueError, OverflowError):
                    pass
        ok_sent = [f for f, o in zip(sent, pubs) if o.get("expiration") != "0"]
        if len(got) != len(ok_sent):
            fails.append(("message-lost-or-duplicated", "sent %d received %d" % (len(ok_sent), len(got))))
        for f, m in zip(ok_sent, got):
            body = m.body.decode("utf8") if isinstance(m.body, bytes) else m.body
            want_body = f["body"].decode("utf8") if isinstance(f["body"], bytes) else f["body"]
            diffs = []
            if body != want_body:
                diffs.append("body")
            want_props = dict(f["properties"] or {})
            if {k: v for k, v in (m.properties or {}).items()} != want_props:
                diffs.append("properties %r != %r" % (m.properties, want_props))
            for fld in ("correlation_id", "reply_to", "message_id", "content_type", "priority", "type", "durable"):
                if getattr(m, fld) != f[fld]:
                    diffs.append("%s %r != %r" % (fld, getattr(m, fld), f[fld]))
            if f["expiration"] is not None and not (isinstance(m.expiration, str) and m.expiration.isdigit()):
                diffs.append("expiration %r received" % (m.expiration,))
            if diffs:
                fails.append(("message-field-not-intact:" + diffs[0].split(" ")[0], "; ".join(diffs)))
        # acknowledge one delivery, and only that one
        ch_unacked = lambda: w.broker.total_unacked("client")
        before = ch_unacked()
        if got and before != len(got):
            fails.append(("unacked-count-before-ack", "%d received, %d unacknowledged" % (len(got), before)))
        order = [i % len(got) for i in c["ack_order"]] if got else []
        done = set()
        for i in order:
            if i in done:
                continue
            got[i].acknowledge(multiple=False)
            done.add(i)
            if ch_unacked() != len(got) - len(done):
                fails.append(("ack-acknowledged-other-deliveries", "after acknowledging %d of %d messages %d are unacknowledged" % (len(done), len(got), ch_unacked())))
                break
        if w.broker.protocol_errors and not any(b.startswith("invalid-amqp") for b, _ in fails):
            fails.append(("protocol-error", repr(w.broker.protocol_errors[:2])))
    finally:
        w.close()
    return fails


# ------------------------------------------------------------------- addresses
def reference_consumer(addr, existing_exchanges):
    """Reference reading of the documented grammar for a Consumer. -> dict(queues, exchanges, bindings, consumer)"""
    name, subject, opts = addr["name"], addr.get("subject"), addr.get("options") or {}
    node, link = opts.get("node") or {}, opts.get("link") or {}
    xd = dict(node.get("x-declare") or {})
    durable = bool(xd.get("durable")) or bool(node.get("durable"))
    auto_delete = bool(xd.get("auto-delete")) or bool(node.get("auto-delete"))
    out = {"queues": {}, "exchanges": {}, "bindings": set(), "consumer": {"exclusive": bool((link.get("x-subscribe") or {}).get("exclusive")), "queue": None}}
    if xd.get("exchange"):
        out["exchanges"][xd["exchange"]] = {"type": xd.get("exchange-type", "direct"), "durable": durable, "auto_delete": auto_delete}
    is_exchange = name in existing_exchanges or (subject and name == xd.get("exchange"))
    if is_exchange:
        ld = dict(link.get("x-declare") or {})
        qname = xd.get("queue") or ld.get("queue") or None       # None = server named
        if xd.get("queue"):
            flags = {"durable": durable, "exclusive": bool(xd.get("exclusive")), "auto_delete": auto_delete}
        else:
            flags = {"durable": bool(ld.get("durable", False)), "exclusive": bool(ld.get("exclusive", True)), "auto_delete": bool(ld.get("auto-delete", True)) or qname is None}
        out["queues"][qname] = flags
        out["consumer"]["queue"] = qname
        for b in node.get("x-bindings") or []:
            out["bindings"].add((b["queue"], b["exchange"], b.get("key") or "", json.dumps(b["arguments"], sort_keys=True) if b.get("arguments") else None))
        if not node.get("x-bindings") and subject:
            out["bindings"].add((qname, name, subject, None))
    else:
        out["queues"][name] = {"durable": durable, "exclusive": bool(xd.get("exclusive")), "auto_delete": auto_delete}
        out["consumer"]["queue"] = name
        for b in node.get("x-bindings") or []:
            if b["exchange"]:
                out["bindings"].add((b["queue"], b["exchange"], b.get("key") or "", json.dumps(b["arguments"], sort_keys=True) if b.get("arguments") else None))
    return out


def render(addr):
    s = addr["name"]
    if addr.get("subject"):
        s += "/" + addr["subject"]
    if addr.get("options") is not None:
        s += ("; " if addr.get("sep", True) else ";") + json.dumps(addr["options"])
    return s


def observe(w, label):
    b = w.broker
    queues = {}
    for n, q in b.queues.items():
        if n == "preexisting-q":
            continue
        queues[n] = {"durable": bool(q.durable), "exclusive": q.exclusive_owner is not None, "auto_delete": bool(q.auto_delete)}
    exchanges = {n: {"type": e.type, "durable": bool(e.durable), "auto_delete": bool(e.auto_delete)} for n, e in b.exchanges.items() if not n.startswith("amq.") and n not in ("", "pre-topic", "pre-headers", "asl_workflow_engine")}
    bindings = set()
    for n, e in b.exchanges.items():
        for (qn, rk, args) in e.bindings:
            bindings.add((qn, n, rk or "", json.dumps(args, sort_keys=True) if args else None))
    consumers = [(cn.queue.name, bool(cn.exclusive)) for q in b.queues.values() for cn in q.consumers if cn.channel.owner == label]
    return {"queues": queues, "exchanges": exchanges, "bindings": bindings, "consumers": consumers}


def run_address(c):
    from .. import world as W
    fails = []
    seen = {}
    addr = c["address"]
    text = render(addr)
    for transport in ("asyncio", "blocking"):
        w = W.World(seed=19, tick=0.0)
        try:
            # a topic exchange that exists before the address is opened
            import pika
            w.harness_channel.exchange_declare("pre-topic", exchange_type="topic", durable=True)
            w.harness_channel.exchange_declare("pre-headers", exchange_type="headers", durable=True)
            t = Transport(w, transport, "client")
            try:
                if c["role"] == "consumer":
                    t.consumer(text, lambda m: None)
                else:
                    p = t.producer(text)
                    p.send(t.message("x", subject=c.get("send_subject")))
            except Exception as e:
                seen[transport] = ("raised", type(e).__name__)
                continue
            obs = observe(w, "client")
            if c["role"] == "producer":
                pubs = [(o.get("exchange"), o["routing_key"]) for o in w.broker.oplog if o["kind"] == "publish" and o["owner"] == "client"]
                obs["published"] = pubs[-1:] if pubs else []
            seen[transport] = ("ok", obs)
        finally:
            w.close()
    a, b = seen.get("asyncio"), seen.get("blocking")
    if a is None or b is None:
        raise HarnessError("transport missing")
    if a[0] != b[0]:
        fails.append(("transports-disagree:raise", "asyncio %r, blocking %r for %s" % (a, b, text)))
    elif a[0] == "ok":
        na, nb = normalise(a[1]), normalise(b[1])
        if na != nb:
            fails.append(("transports-disagree:declarations", "address %s: asyncio %r, blocking %r" % (text, na, nb)))
    if a[0] == "ok" and c["role"] == "consumer":
        want = reference_consumer(addr, {"pre-topic", "pre-headers"})
        obs = a[1]
        gq = {(None if n.startswith("amq.gen-") else n): f for n, f in obs["queues"].items()}
        if gq != want["queues"]:
            fails.append(("address-queues-differ", "address %s declared queues %r, the grammar describes %r" % (text, gq, want["queues"])))
        if obs["exchanges"] != want["exchanges"]:
            fails.append(("address-exchanges-differ", "address %s declared exchanges %r, the grammar describes %r" % (text, obs["exchanges"], want["exchanges"])))
        gb = {((None if str(q).startswith("amq.gen-") else q), e, k, a_) for q, e, k, a_ in obs["bindings"]}
        wb = {((None if (q is None or str(q) == "") else q), e, k, a_) for q, e, k, a_ in want["bindings"]}
        if gb != wb:
            fails.append(("address-bindings-differ", "address %s bound %r, the grammar describes %r" % (text, sorted(gb, key=str), sorted(wb, key=str))))
        gc = [((None if n.startswith("amq.gen-") else n), x) for n, x in obs["consumers"]]
        if gc != [(want["consumer"]["queue"], want["consumer"]["exclusive"])]:
            fails.append(("address-consumer-differs", "address %s consumers %r, the grammar describes %r" % (text, gc, want["consumer"])))
    if a[0] == "ok" and c["role"] == "producer":
        opts = addr.get("options") or {}
        xd = (opts.get("node") or {}).get("x-declare") or {}
        name = addr["name"] or xd.get("exchange") or ""
        is_exchange = name in ("pre-topic",) or name == xd.get("exchange")
        subj = c.get("send_subject") or addr.get("subject") or ""
        want_pub = (name, subj) if is_exchange and name else ("", subj or name) if c.get("send_subject") else ("", name)
        if is_exchange and name:
            want_pub = (name, subj)
        got_pub = a[1]["published"][0] if a[1]["published"] else None
        if got_pub != want_pub:
            fails.append(("producer-target-differs", "address %s, subject %r: published to %r, the grammar describes %r" % (text, c.get("send_subject"), got_pub, want_pub)))
    return fails


def normalise(obs):
    o = copy.deepcopy(obs)
    o["queues"] = {("<server-named>" if n.startswith("amq.gen-") else n): f for n, f in o["queues"].items()}
    o["bindings"] = sorted(((("<server-named>" if str(q).startswith("amq.gen-") else q), e, k, a_) for q, e, k, a_ in o["bindings"]), key=str)
    o["consumers"] = sorted((("<server-named>" if n.startswith("amq.gen-") else n), x) for n, x in o["consumers"])
    return o


# ------------------------------------------------------------------ generators
def strategies():
    from hypothesis import strategies as st
    poison = st.one_of(st.none(), st.none(), st.fixed_dictionaries({"after": st.integers(1, 25), "queue": st.sampled_from(["shared", "instance"]), "body": st.sampled_from(["{bad", "", "[1, 2]", "\"text\"", "{\"data\": 1}"])}))
    aff = st.tuples(S.cases_with_schedules(dict(S.CFG_SCHED, max_states=6), max_sched=30, multi=True), st.integers(1, 3), st.sampled_from(["classic", "classic", "quorum"]),
                    st.integers(0, 2), st.sampled_from([1000, 1000, 60]), poison).map(
        lambda t: {"family": "affinity", "case": {k: t[0][0][k] for k in ("definition", "input", "oracle", "type")}, "features": t[0][0].get("features", []), "schedule": t[0][1], "starts": t[0][2],
                   "n_engines": t[1], "queue_type": t[2], "api_offset": t[3], "capacity": t[4], "poison": t[5]})
    text = st.sampled_from(["", "x", "a b", "é", "{\"k\": 1}", "line\nbreak", "q" * 300])
    props = st.one_of(st.none(), st.just({}), st.dictionaries(st.sampled_from(["a", "x-y", "trace.id", "n"]), st.one_of(st.integers(-5, 5), st.text(max_size=5), st.booleans()), max_size=3))
    msg = st.fixed_dictionaries({
        "body": st.one_of(text, text.map(lambda s: s.encode("utf8"))), "properties": props, "content_type": st.sampled_from([None, "application/json", "text/plain"]),
        "correlation_id": st.sampled_from([None, "c-1", "00000000-0000-4000-8000-000000000001.waitForTaskToken", ""]), "reply_to": st.sampled_from([None, "asl_workflow_reply_to-A", "amq.gen-xyz", ""]),
        "expiration": st.sampled_from(EXPIRATIONS), "message_id": st.sampled_from([None, "m-1", ""]), "priority": st.sampled_from([None, 0, 5]), "type": st.sampled_from([None, "t"]),
        "durable": st.booleans(), "subject_via_property": st.booleans()})
    mapping = st.fixed_dictionaries({"family": st.just("mapping"), "transport": st.sampled_from(["asyncio", "blocking"]), "messages": st.lists(msg, min_size=1, max_size=4),
                                     "ack_order": st.lists(st.integers(0, 5), max_size=4)})
    qname = st.sampled_from(["q1", "my.queue", "work_items-1"])
    decl = st.fixed_dictionaries({}, optional={"durable": st.booleans(), "exclusive": st.booleans(), "auto-delete": st.booleans()})
    node_q = st.fixed_dictionaries({}, optional={"x-declare": decl, "durable": st.booleans(), "auto-delete": st.booleans()})
    link = st.fixed_dictionaries({}, optional={"x-subscribe": st.fixed_dictionaries({"exclusive": st.booleans()})})
    plain_q = st.tuples(qname, st.one_of(st.none(), st.fixed_dictionaries({}, optional={"node": node_q, "link": link})), st.booleans()).map(
        lambda t: {"name": t[0], "options": t[1], "sep": t[2]})
    # one to three bindings; several of them may differ only in the key, or (headers exchange, where the key is ignored and usually omitted) only in their arguments
    binding = st.one_of(
        st.fixed_dictionaries({"exchange": st.just("pre-topic"), "key": st.sampled_from(["k1", "a.b", ""])}),
        st.fixed_dictionaries({"exchange": st.just("pre-headers"), "arguments": st.fixed_dictionaries({"x-match": st.sampled_from(["all", "any"]), "owner": st.sampled_from(["Sauron", "Gandalf", "Frodo"])})},
                              optional={"key": st.sampled_from(["data1", ""])}))
    bound_q = st.tuples(qname, st.lists(binding, min_size=1, max_size=3), st.booleans()).map(
        lambda t: {"name": t[0], "options": {"node": {"durable": t[2], "x-bindings": [dict(b, queue=t[0]) for b in t[1]]}}})
    topic_sub = st.tuples(st.sampled_from(["sports", "a.*.c", "#"]), st.one_of(st.none(), st.fixed_dictionaries({"link": st.fixed_dictionaries({"x-declare": st.fixed_dictionaries(
        {"queue": st.sampled_from(["news-queue", "sub1"])}, optional={"exclusive": st.booleans(), "durable": st.booleans(), "auto-delete": st.booleans()})})}))).map(
        lambda t: {"name": "pre-topic", "subject": t[0], "options": t[1]})
    declared_topic = st.tuples(st.sampled_from(["news-service", "ex.1"]), st.sampled_from(["sports", "k"]), st.sampled_from(["topic", "direct", "fanout"]), st.booleans()).map(
        lambda t: {"name": t[0], "subject": t[1], "options": {"node": {"x-declare": {"exchange": t[0], "exchange-type": t[2], "durable": t[3]}}}})
    # the documented subscription with a queue of its own name: the address names the exchange, x-declare names exchange and queue, x-bindings bind that queue (whose name differs from the address's) one to three times
    named_sub = st.tuples(st.sampled_from(["news-service", "ex.1"]), st.sampled_from(["sports", "k"]), st.sampled_from(["topic", "direct"]), st.sampled_from(["news-queue", "sub1"]),
                          st.lists(st.sampled_from(["sports", "k", "a.b", ""]), min_size=1, max_size=3, unique=True), st.booleans()).map(
        lambda t: {"name": t[0], "subject": t[1], "options": {"node": {"x-declare": dict({"exchange": t[0], "exchange-type": t[2], "queue": t[3]}, **({"durable": True} if t[5] else {})),
                                                                       "x-bindings": [{"exchange": t[0], "queue": t[3], "key": k} for k in t[4]]}}})
    cons = st.one_of(plain_q, plain_q, bound_q, topic_sub, declared_topic, named_sub).map(lambda a: {"family": "address", "role": "consumer", "address": a})
    prod_addr = st.one_of(
        qname.map(lambda n: {"name": n, "options": None}),
        st.just({"name": "pre-topic", "options": None}),
        st.tuples(st.sampled_from(["sports", "a.b"])).map(lambda t: {"name": "pre-topic", "subject": t[0], "options": None}),
        st.tuples(st.sampled_from(["news-service", "ex.1"]), st.sampled_from(["topic", "direct"])).map(lambda t: {"name": "", "options": {"node": {"x-declare": {"exchange": t[0], "exchange-type": t[1]}}}, "sep": True}),
    )
    prod = st.tuples(prod_addr, st.sampled_from([None, None, "subj.x"])).map(lambda t: {"family": "address", "role": "producer", "address": t[0], "send_subject": t[1]})
    children = st.fixed_dictionaries({"family": st.just("children"), "form": st.sampled_from(sorted(CHILD_FORMS)), "n_engines": st.integers(2, 3), "n_parents": st.integers(1, 4),
                                      "queue_type": st.sampled_from(["classic", "classic", "quorum"]), "api_offset": st.integers(0, 2), "child_type": st.sampled_from(["STANDARD", "EXPRESS"]),
                                      "parent_type": st.sampled_from(["STANDARD", "STANDARD", "EXPRESS"]), "schedule": st.lists(st.sampled_from([0, 0, 0, 1, 2, 3]), max_size=25)})
    children = children.filter(lambda c: not (c["parent_type"] == "EXPRESS" and c["form"] in ("sync", "sync2")))        # .sync from an EXPRESS parent is an invalid combination (C15's subject)
    return aff, mapping, cons, prod, children


def evaluate(c):
    fam = c["family"]
    if fam == "children":
        fails, info = run_children(c)
        return fails, len(info.get("owners", [])) > 1 or len(info.get("launchers", [])) > 1, ["family-children", "child-form-" + c["form"], "engines-%d" % c["n_engines"]] + (["several-owners"] if len(info.get("owners", [])) > 1 else [])
    if fam == "affinity":
        fails, info = run_affinity(c)
        nt = c["n_engines"] > 1 and info.get("per_instance_deliveries", 0) > 0
        classes = ["family-affinity", "engines-%d" % c["n_engines"], "queue-" + c["queue_type"], "execs-%d" % len(c["starts"])] + ["f:" + f for f in c.get("features", []) if f in ("Parallel", "Map", "Wait", "Retry")] + \
                  (["small-prefetch"] if c.get("capacity") == 60 else []) + (["poison-message-mid-run"] if c.get("poison") else []) + (["several-owners"] if len(info.get("owners", [])) > 1 else [])
        return fails, nt, classes
    if fam == "mapping":
        fails = run_mapping(c)
        nt = any(m["expiration"] is not None for m in c["messages"]) or len(c["messages"]) > 1
        return fails, nt, ["family-mapping", "transport-" + c["transport"]] + sorted(set("expiration-%s" % type(m["expiration"]).__name__ for m in c["messages"]))
    fails = run_address(c)
    return fails, c["address"].get("options") is not None, ["family-address", "role-" + c["role"]]


def shard(k, seed, tier, examples=60):
    import hypothesis
    from hypothesis import given, settings, HealthCheck, Phase, strategies as st
    camp = Campaign(PID, rule=RULE, tier=tier, seed=seed)
    aff, mapping, cons, prod, children = strategies()

    @hypothesis.seed(seed)
    @settings(max_examples=examples, deadline=None, database=None, suppress_health_check=list(HealthCheck), phases=[Phase.generate])
    @given(st.one_of(aff, aff, mapping, mapping, cons, cons, prod, children))
    def run(c):
        try:
            fails, nt, classes = evaluate(c)
        except HarnessError as e:
            camp.harness_error("%s in %s" % (e, json.dumps(c, default=str)[:400]))
            return
        except Exception as e:
            camp.harness_error("case crashed the harness: %r %s %s" % (e, traceback.format_exc()[-900:], json.dumps(c, default=str)[:400]))
            return
        camp.case(jsonable(c), nontrivial=bool(nt), classes=classes)
        for b, d in fails:
            camp.fail(b, jsonable(c), d)
    run()
    return camp.export()


def jsonable(c):
    def conv(v):
        if isinstance(v, bytes):
            return {"__bytes__": v.decode("utf8")}
        if isinstance(v, dict):
            return {k: conv(x) for k, x in v.items()}
        if isinstance(v, (list, tuple)):
            return [conv(x) for x in v]
        return v
    return conv(c)


def unjson(c):
    def conv(v):
        if isinstance(v, dict):
            if set(v) == {"__bytes__"}:
                return v["__bytes__"].encode("utf8")
            return {k: conv(x) for k, x in v.items()}
        if isinstance(v, list):
            return [conv(x) for x in v]
        return v
    return conv(c)


def replay_case(case):
    return evaluate(unjson(case))[0]


def main(tier, seed, replay=None):
    camp = Campaign(PID, rule=RULE, tier=tier, seed=seed)
    camp.assumptions = [
        "the broker is the simulated one (default exchange, direct/topic/fanout routing, exclusive consumers, prefetch, RabbitMQ's rejection of malformed expiration values) with the pika stand-ins for the asyncio and blocking adapters",
        "ownership of an execution = the instance that consumed its start event; the monitor reads event bodies from the broker log",
        "the reference reading of the address grammar covers: queue addresses with node x-declare / durable / auto-delete / x-bindings and link x-subscribe, subscriptions to an existing or declared exchange with optional link x-declare, "
        "and producer targets (queue name, existing exchange with or without subject, options-only exchange declaration); option values containing ';' or '/' are not generated",
        "expiration: any value that float() accepts and is finite and non-negative must arrive as its integer part; every other value may arrive as any non-negative integer (the documented clamp is 0)",
    ]
    if replay:
        with open(replay) as fp:
            rec = json.load(fp)
        for b, d in replay_case(rec["case"]):
            camp.fail(b, rec["case"], d)
        camp.case(rec["case"], True)
        camp.min_nontrivial = 0
        camp.write_evidence = False
        return camp.finish()
    camp.run_witnesses(replay_case)
    if tier == "thorough":
        run_shards(camp, __name__, "shard", 16, examples=1500)
    else:
        run_shards(camp, __name__, "shard", 8, examples=90)
    return camp.finish()
