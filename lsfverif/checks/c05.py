"""
C05 - Parallel and Map joins are order-independent, complete and concurrency-bounded.

Structured fan-out machines whose branch/iteration Tasks carry (index) in their
payload, all succeeding; every interleaving of branch events, task replies and
timers is enumerated for small cases (stateless DFS over the scheduler's
choices) and sampled by Hypothesis for larger ones.
"""
import copy, json, traceback

from .. import env
from ..runner import Campaign, HarnessError, run_shards
from .. import world as W
from .. import harness as H
from ..ref import interp as ri

PID = "C05"
RULE = ("cases = (fan-out machine, item array, MaxConcurrency, per-item worker delays, schedule). Machines: Map over k items (k = 0..4 quick / 0..8 thorough) with MaxConcurrency 0..k+1 and one or "
        "two Task states per iteration, Parallel with 2..3 (..5) branches of one or two Tasks, and the nestings Map-of-Parallel / Parallel-containing-Map / Map-of-Map / Map whose iterations enter the same nested Parallel twice (a Choice loops back once); in one random case in four every worker answers twice; followed by an 'After' Task. "
        "Schedules: every interleaving (stateless DFS, bounded number of schedules per case) for small cases, Hypothesis choice lists otherwise. Oracles: output position i = reference output of "
        "branch/item i for every schedule; the After request is issued only after the last branch reply was handed to the engine; every item index is requested exactly once; requests issued minus "
        "replies delivered for a Map never exceeds MaxConcurrency > 0. Non-trivial = fan-out of at least 2 and the schedule (or the delays) deviates from index order. Distinct by canonical JSON of (case, schedule).")


def fn(n):
    return W.fn_arn(n)


def build(case):
    """case: dict(kind, n, mc, two, delays) -> (definition, input, oracle, expected fan-out size)"""
    kind, n, mc, two = case["kind"], case["n"], case.get("mc", 0), case.get("two", False)
    delays = case.get("delays") or []

    caught = case.get("caught") or []        # iterations / branches whose first Task fails and is caught inside the iteration by a (slow) fallback Task: the iteration still succeeds

    def item_proc(prefix, more=None):
        states = {prefix + "T1": {"Type": "Task", "Resource": fn("item"), "Next": prefix + "T2"} if two else {"Type": "Task", "Resource": fn("item"), "End": True}}
        if two:
            states[prefix + "T2"] = {"Type": "Task", "Resource": fn("item2"), "End": True}
        if caught:
            states[prefix + "T1"]["Catch"] = [{"ErrorEquals": ["States.ALL"], "ResultPath": "$.err", "Next": prefix + "R"}]
            states[prefix + "R"] = {"Type": "Task", "Resource": fn("recover"), "End": True}
        return {"StartAt": prefix + "T1", "States": states}
    after = {"Type": "Task", "Resource": fn("after"), "End": True}
    items = [{"k": i} for i in range(n)]
    if kind == "map":
        m = {"Type": "Map", "ItemsPath": "$.items", "ItemProcessor": item_proc("I"), "Next": "After"}
        if mc is not None:
            m["MaxConcurrency"] = mc
        states = {"M": m, "After": after}
    elif kind == "parallel":
        branches = [{"StartAt": "B%dT1" % i, "States": dict(
            {"B%dT1" % i: ({"Type": "Task", "Resource": fn("item"), "Parameters": {"k": i}, "Next": "B%dT2" % i} if two else {"Type": "Task", "Resource": fn("item"), "Parameters": {"k": i}, "End": True})},
            **({"B%dT2" % i: {"Type": "Task", "Resource": fn("item2"), "End": True}} if two else {}))} for i in range(n)]
        for i in caught:
            if i < n:
                branches[i]["States"]["B%dT1" % i]["Catch"] = [{"ErrorEquals": ["States.ALL"], "ResultPath": "$.err", "Next": "B%dR" % i}]
                branches[i]["States"]["B%dR" % i] = {"Type": "Task", "Resource": fn("recover"), "Parameters": {"k": i, "recovered": True}, "End": True}
        states = {"M": {"Type": "Parallel", "Branches": branches, "Next": "After"}, "After": after}
    elif kind == "map-of-parallel":
        inner = {"Type": "Parallel", "End": True, "Branches": [
            {"StartAt": "PA", "States": {"PA": {"Type": "Task", "Resource": fn("item"), "Parameters": {"k.$": "$.k", "b": 0}, "End": True}}},
            {"StartAt": "PB", "States": {"PB": {"Type": "Task", "Resource": fn("item"), "Parameters": {"k.$": "$.k", "b": 1}, "End": True}}}]}
        m = {"Type": "Map", "ItemsPath": "$.items", "ItemProcessor": {"StartAt": "IP", "States": {"IP": inner}}, "Next": "After"}
        if mc is not None:
            m["MaxConcurrency"] = mc
        states = {"M": m, "After": after}
    elif kind == "map-of-looped-parallel":
        # every iteration enters the same nested Parallel twice (a Choice loops back once): each entry is a fan-out of its own, the second pass must not see the first one's results
        inner = {"Type": "Parallel", "ResultPath": "$.r", "Next": "Loop", "Branches": [
            {"StartAt": "PA", "States": {"PA": {"Type": "Task", "Resource": fn("item"), "Parameters": {"k.$": "$.k", "b": 0, "pass.$": "$.pass"}, "End": True}}},
            {"StartAt": "PB", "States": {"PB": {"Type": "Task", "Resource": fn("item"), "Parameters": {"k.$": "$.k", "b": 1, "pass.$": "$.pass"}, "End": True}}}]}
        proc = {"StartAt": "IP", "States": {
            "IP": inner,
            "Loop": {"Type": "Choice", "Choices": [{"Variable": "$.pass", "NumericEquals": 0, "Next": "Inc"}], "Default": "Done"},
            "Inc": {"Type": "Pass", "Result": 1, "ResultPath": "$.pass", "Next": "IP"},
            "Done": {"Type": "Succeed"}}}
        m = {"Type": "Map", "ItemsPath": "$.items", "ItemProcessor": proc, "Next": "After"}
        if mc is not None:
            m["MaxConcurrency"] = mc
        items = [{"k": i, "pass": 0} for i in range(n)]
        states = {"M": m, "After": after}
    elif kind == "parallel-with-map":
        m = {"Type": "Map", "ItemsPath": "$.items", "ItemProcessor": item_proc("I"), "End": True}
        if mc is not None:
            m["MaxConcurrency"] = mc
        states = {"M": {"Type": "Parallel", "Next": "After", "Branches": [
            {"StartAt": "IM", "States": {"IM": m}},
            {"StartAt": "PX", "States": {"PX": {"Type": "Task", "Resource": fn("item"), "Parameters": {"k": 100}, "End": True}}}]}, "After": after}
    elif kind == "map-of-map":
        inner = {"Type": "Map", "ItemsPath": "$.sub", "ItemSelector": {"k.$": "$$.Map.Item.Value", "outer.$": "$.k"},
                 "ItemProcessor": {"StartAt": "JT", "States": {"JT": {"Type": "Task", "Resource": fn("item"), "End": True}}}, "End": True}
        if case.get("inner_mc") is not None:
            inner["MaxConcurrency"] = case["inner_mc"]
        m = {"Type": "Map", "ItemsPath": "$.items", "ItemProcessor": {"StartAt": "IN", "States": {"IN": inner}}, "Next": "After"}
        if mc is not None:
            m["MaxConcurrency"] = mc
        items = [{"k": i, "sub": [10 * i + j for j in range(2)]} for i in range(n)]
        states = {"M": m, "After": after}
    else:
        raise HarnessError("unknown kind %r" % kind)
    definition = {"StartAt": "M", "States": states}
    by_key = {}
    for i, d in enumerate(delays):
        if d:
            by_key[json.dumps(i)] = [{"ok": "$echo", "delay": d}]
    for i in caught:
        by_key[json.dumps(i)] = [{"err": "Boom", "msg": "caught inside the iteration", "delay": (delays[i] if i < len(delays) else 0)}]
    oracle = {"item": {"seq": [{"ok": "$echo"}], "by_key": by_key}, "item2": {"seq": [{"ok": "$echo"}]}, "after": {"seq": [{"ok": "$echo"}]},
              "recover": {"seq": [{"ok": "$echo", "delay": case.get("recover_delay", 2)}]}}
    return definition, {"items": items}, oracle


def run_once(case, schedule, eager_time=False):
    """-> (fails, info)"""
    definition, input_value, oracle = build(case)
    mc = case.get("mc") or 0
    w = W.World(seed=5, tick=0.0)
    fails = []
    try:
        w.eager_time = eager_time
        w.add_engine("A")
        H.install_workers(w, definition, oracle, dup_replies=case.get("dup", 0))
        w.create_state_machine("m1", definition, type_=case.get("type", "STANDARD"))
        st, r = w.start_execution(W.sm_arn("m1"), input_value, name="e1")
        arn = r["executionArn"]
        w.run(schedule)
        term = w.terminal(arn)
        exp = ri.Interp(definition, copy.deepcopy(oracle), t0=1_700_000_000.0, execution={"Name": "e1"}, sm_arn=W.sm_arn("m1")).run(copy.deepcopy(input_value))
        fails += H.compare_outcome(exp, H.detail_outcome(term))
        log = w.broker.oplog
        # request / reply bookkeeping from the broker log
        req = [o for o in log if o["kind"] == "publish" and o.get("reply_to") and o["queues"] and o["queues"][0] in ("item", "item2", "recover", "after")]
        rep_deliv = {}
        for o in log:
            if o["kind"] == "deliver" and str(o["queue"]).startswith("asl_workflow_reply_to"):
                rep_deliv.setdefault(o["correlation_id"], o)      # the first delivery counts: a worker may answer twice (case["dup"])
        item_reqs = [o for o in req if o["queues"][0] == "item"]
        payloads = [json.loads(o["body"]) for o in item_reqs]
        # (1) each item / branch requested exactly once
        keys = sorted(json.dumps(p, sort_keys=True) for p in payloads)
        if len(keys) != len(set(keys)):
            dup = [k for k in set(keys) if keys.count(k) > 1]
            fails.append(("item-requested-more-than-once", "payloads %r requested %s times" % (dup[:2], [keys.count(k) for k in dup[:2]])))
        want = expected_item_payloads(case)
        if sorted(json.dumps(p, sort_keys=True) for p in want) != keys:
            fails.append(("item-set-mismatch", "requested %r expected %r" % (keys[:8], sorted(json.dumps(p, sort_keys=True) for p in want)[:8])))
        # (2) the state after the join starts only after every branch has finished
        after_req = [o for o in req if o["queues"][0] == "after"]
        if term and term.get("status") == "SUCCEEDED":
            if len(after_req) != 1:
                fails.append(("after-requested-%d-times" % len(after_req), "the state after the join was invoked %d times" % len(after_req)))
            else:
                last_branch_reply = max([rep_deliv[o["correlation_id"]]["seq"] for o in req if o["queues"][0] in ("item", "item2", "recover") and o["correlation_id"] in rep_deliv] or [0])
                if after_req[0]["seq"] < last_branch_reply:
                    fails.append(("join-before-all-branches-finished", "the After request (op %d) was issued before the last branch reply was delivered (op %d)" % (after_req[0]["seq"], last_branch_reply)))
        # (3) in-flight iterations of the (outer) Map never exceed MaxConcurrency
        if case["kind"] in ("map", "map-of-parallel", "parallel-with-map", "map-of-map", "map-of-looped-parallel") and mc > 0:
            per_iter_base = 4 if case["kind"] == "map-of-looped-parallel" else 2 if (case.get("two") and case["kind"] in ("map", "parallel-with-map")) or case["kind"] in ("map-of-parallel", "map-of-map") else 1
            caught_set = set(case.get("caught") or []) if case["kind"] in ("map", "parallel-with-map") else set()
            per_iter_of = lambda i: 2 if i in caught_set else per_iter_base       # a caught iteration is its failing Task plus the fallback Task
            corr_idx, started, done, peak, peak_at = {}, set(), {}, 0, None
            for o in log:
                if o["kind"] == "publish" and o.get("reply_to") and o["queues"] and o["queues"][0] in ("item", "item2", "recover"):
                    idx = iteration_index(case, json.loads(o["body"]))
                    if idx is not None:
                        corr_idx[o["correlation_id"]] = idx
                        started.add(idx)
                elif o["kind"] == "deliver" and str(o["queue"]).startswith("asl_workflow_reply_to") and o.get("correlation_id") in corr_idx and rep_deliv.get(o["correlation_id"]) is o:
                    idx = corr_idx[o["correlation_id"]]
                    done[idx] = done.get(idx, 0) + 1
                else:
                    continue
                active = len([i for i in started if done.get(i, 0) < per_iter_of(i)])
                if active > peak:
                    peak, peak_at = active, o["seq"]
            if peak > mc:
                fails.append(("max-concurrency-exceeded", "MaxConcurrency %d but %d iterations were in flight at once (op %s)" % (mc, peak, peak_at)))
        if w.engine_exceptions:
            fails.append(("engine-callback-exception:%s" % w.engine_exceptions[0]["type"], repr(w.engine_exceptions[0])))
        info = {"choice_log": list(w.choice_log), "steps": w.steps, "outcome": H.detail_outcome(term), "n_requests": len(req)}
    finally:
        w.close()
    return fails, info


def iteration_index(case, payload):
    k = case["kind"]
    if not isinstance(payload, dict):
        return None
    if k == "map-of-map":
        return payload.get("outer")
    if k == "parallel-with-map":
        v = payload.get("k", payload.get("echo", {}).get("k") if isinstance(payload.get("echo"), dict) else None)
        return None if v == 100 else v
    if "k" in payload:
        return payload["k"]
    e = payload.get("echo")
    return e.get("k") if isinstance(e, dict) else None


def expected_item_payloads(case):
    k, n = case["kind"], case["n"]
    if k in ("map", "parallel"):
        return [{"k": i} for i in range(n)]
    if k == "map-of-parallel":
        return [{"k": i, "b": b} for i in range(n) for b in (0, 1)]
    if k == "map-of-looped-parallel":
        return [{"k": i, "b": b, "pass": p} for i in range(n) for b in (0, 1) for p in (0, 1)]
    if k == "parallel-with-map":
        return [{"k": i} for i in range(n)] + [{"k": 100}]
    if k == "map-of-map":
        return [{"k": 10 * i + j, "outer": i} for i in range(n) for j in range(2)]
    return []


def explore(case, max_schedules):
    """Stateless DFS over all schedules (advance only when nothing else is enabled). Yields (schedule, fails, info)."""
    stack = [[]]
    count = 0
    complete = True
    while stack:
        prefix = stack.pop()
        fails, info = run_once(case, prefix, eager_time=False)
        count += 1
        yield prefix, fails, info
        factors = info["choice_log"]
        taken = prefix + [0] * (len(factors) - len(prefix))
        for i in range(len(factors) - 1, len(prefix) - 1, -1):
            for c in range(1, factors[i]):
                stack.append(taken[:i] + [c])
        if count >= max_schedules:
            complete = not stack
            break
    explore.complete = complete


def small_cases(tier):
    out = []
    for n in (0, 1, 2):
        for mc in (0, 1, 2, 3):
            if mc <= n + 1:
                out.append({"kind": "map", "n": n, "mc": mc, "two": False})
    out.append({"kind": "parallel", "n": 2, "two": False})
    out.append({"kind": "parallel", "n": 2, "two": True})
    out.append({"kind": "map", "n": 2, "mc": 1, "two": True})
    out.append({"kind": "parallel-with-map", "n": 1, "mc": 0})
    out.append({"kind": "map", "n": 3, "mc": 2, "two": False, "caught": [0], "recover_delay": 2})
    out.append({"kind": "map-of-looped-parallel", "n": 1, "mc": 0})
    if tier == "thorough":
        out += [{"kind": "parallel", "n": 3, "two": False}, {"kind": "map", "n": 3, "mc": 2, "two": False}, {"kind": "map", "n": 3, "mc": 0, "two": False},
                {"kind": "map-of-parallel", "n": 2, "mc": 1}, {"kind": "map-of-map", "n": 2, "mc": 1, "inner_mc": 1}, {"kind": "parallel-with-map", "n": 2, "mc": 1}]
    return out


def exhaustive_shard(k, seed, tier, nshards=1, budget=400):
    camp = Campaign(PID, rule=RULE, tier=tier, seed=seed)
    all_complete = True
    for ci, case in enumerate(small_cases(tier)):
        if ci % nshards != k:
            continue
        orders = set()
        n = 0
        for sched, fails, info in explore(case, budget):
            n += 1
            c = dict(case, schedule=sched)
            camp.case(c, nontrivial=case["n"] >= 2 and any(sched), classes=["exhaustive", "kind-" + case["kind"], "n-%d" % case["n"], "mc-%s" % case.get("mc")],
                      sample=dict(c, outcome=info["outcome"], steps=info["steps"]))
            for b, d in fails:
                camp.fail(b, c, d)
        if not getattr(explore, "complete", True):
            all_complete = False
            camp.count("enumeration-truncated:%s-n%d-mc%s" % (case["kind"], case["n"], case.get("mc")))
        camp.extra.setdefault("schedules_per_case", {})["%s n=%d mc=%s two=%s" % (case["kind"], case["n"], case.get("mc"), case.get("two"))] = n
    camp.extra["all_enumerations_complete"] = all_complete
    return camp.export()


def random_shard(k, seed, tier, examples=60):
    import hypothesis
    from hypothesis import given, settings, HealthCheck, Phase, strategies as st
    camp = Campaign(PID, rule=RULE, tier=tier, seed=seed)
    maxn = 8 if tier == "thorough" else 4

    @st.composite
    def cases(draw):
        kind = draw(st.sampled_from(["map", "map", "parallel", "map-of-parallel", "parallel-with-map", "map-of-map", "map-of-looped-parallel"]))
        n = draw(st.integers(2, 5 if tier == "thorough" else 3)) if kind == "parallel" else draw(st.integers(0, maxn if kind == "map" else 3))
        c = {"kind": kind, "n": n, "two": draw(st.booleans()), "type": draw(st.sampled_from(["STANDARD", "EXPRESS"]))}
        c["mc"] = draw(st.one_of(st.none(), st.integers(0, n + 1))) if kind != "parallel" else None
        if kind == "map-of-map":
            c["inner_mc"] = draw(st.sampled_from([None, 0, 1, 2]))
        c["delays"] = draw(st.lists(st.sampled_from([0, 0, 0.5, 1, 2]), min_size=n, max_size=n))
        if kind in ("map", "parallel", "parallel-with-map") and n >= 1 and draw(st.integers(0, 2)) == 0:
            c["caught"] = sorted(draw(st.sets(st.integers(0, n - 1), min_size=1, max_size=2)))
            c["recover_delay"] = draw(st.sampled_from([1, 2, 4]))
        if draw(st.integers(0, 3)) == 0:
            c["dup"] = draw(st.sampled_from([0.25, 1, 3]))      # every worker answers twice, the second answer that much later: a duplicate must not fill a slot, complete a block or launch anything again
        sched = draw(st.lists(st.integers(0, 5), max_size=60 if tier == "thorough" else 30))
        return c, sched

    @hypothesis.seed(seed)
    @settings(max_examples=examples, deadline=None, database=None, suppress_health_check=list(HealthCheck), phases=[Phase.generate])
    @given(cases())
    def run(t):
        case, sched = t
        c = dict(case, schedule=sched)
        try:
            fails, info = run_once(case, sched, eager_time=True)
        except Exception as e:
            camp.harness_error("case crashed the harness: %r %s %s" % (e, traceback.format_exc()[-700:], json.dumps(c)))
            return
        camp.case(c, nontrivial=case["n"] >= 2 and (any(sched) or any(case["delays"])), classes=["random", "kind-" + case["kind"], "n-%d" % min(case["n"], 5), "mc-%s" % case.get("mc")] + (["failure-caught-inside-iteration"] if case.get("caught") else []) + (["workers-answer-twice"] if case.get("dup") else []),
                  sample=dict(c, outcome=info["outcome"], steps=info["steps"]))
        for b, d in fails:
            camp.fail(b, c, d)
    run()
    return camp.export()


def replay_case(case):
    c = {k: v for k, v in case.items() if k != "schedule"}
    return run_once(c, case.get("schedule", []), eager_time=True)[0]


def main(tier, seed, replay=None):
    camp = Campaign(PID, rule=RULE, tier=tier, seed=seed)
    camp.assumptions = [
        "all branches succeed (failing branches are C06), some of them only because a failing Task is caught inside the iteration by a slow fallback Task; workers reply after a scripted virtual delay",
        "exhaustive enumeration lets virtual time pass only when nothing else is enabled; the sampled part also lets time pass while deliveries are pending",
        "in-flight = iterations with a request issued whose reply has not yet been delivered to the engine (a lower bound of the iterations in progress)",
    ]
    if replay:
        with open(replay) as fp:
            rec = json.load(fp)
        for b, d in replay_case(rec["case"]):
            camp.fail(b, rec["case"], d)
        camp.case(rec["case"], True)
        camp.min_nontrivial = 0
        camp.write_evidence = False
        return camp.finish()
    camp.run_witnesses(replay_case)
    if tier == "thorough":
        run_shards(camp, __name__, "exhaustive_shard", 16, nshards=16, budget=20000)
        run_shards(camp, __name__, "random_shard", 16, examples=1500)
    else:
        run_shards(camp, __name__, "exhaustive_shard", 8, nshards=8, budget=500)
        run_shards(camp, __name__, "random_shard", 8, examples=50)
    camp.exhaustive = False
    return camp.finish()
