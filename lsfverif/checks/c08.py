"""
C08 - waits and timeouts fire at the right instant, never early.

Pure part : exhaustive sweep of every UTC offset -23:59..+23:59 (and Z) x 0..9
            fractional digits x base instants; parse_rfc3339_datetime vs the
            integer-arithmetic reference (lsfverif.ref.timefmt).
Engine part: Wait / Task timeout / execution timeout / dead-timer scenarios on the
            virtual clock (time zone of the engine process varied), with delivery
            delays, worker reply delays around the deadline and crash+redelivery.
"""
import copy, json, traceback

from .. import env
from ..runner import Campaign, HarnessError, run_shards
from ..ref import timefmt

PID = "C08"
RULE = ("pure cases = RFC 3339 strings (every offset from -23:59 to +23:59 at minute granularity and Z, 0..9 fractional digits, several base instants incl. "
        "leap day / year end / 2038) compared with an integer-arithmetic reference; engine cases = Wait{Seconds,SecondsPath,Timestamp,TimestampPath}, "
        "Task TimeoutSeconds, machine TimeoutSeconds and cancelled-timer scenarios with generated durations, delivery delays, worker reply delays "
        "relative to the deadline, crash+redelivery, and the engine's local time zone in {UTC,+05:30,-03:30,+12:45}. "
        "Non-trivial = offset minutes != 00 or > 6 fractional digits (pure); delivery delay != 0, a reply within 1 s of a deadline, a redelivery, "
        "or a non-UTC zone (engine). Distinct by the case's canonical JSON.")

BASES = [0, 1_582_934_399, 946_684_799, 2_147_483_647, 1_457_920_740, 1_700_000_000]
TOL = 2e-6
ZONES = {"UTC": "UTC", "+05:30": "<+0530>-5:30", "-03:30": "<-0330>3:30", "+12:45": "<+1245>-12:45"}

_repo = None


def repo_parse():
    global _repo
    if _repo is None:
        from .. import world as W
        W.install()
        import asl_workflow_engine.state_engine as se
        _repo = se.parse_rfc3339_datetime
    return _repo


# ------------------------------------------------------------------ pure part
def check_timestamp(s):
    parse = repo_parse()
    want = timefmt.parse_us(s)
    try:
        got = parse(s).timestamp()
    except Exception as e:
        digits = len(s.split(".")[1].rstrip("Z").split("+")[0].split("-")[0]) if "." in s else 0
        return [("parse-raises:%s:%s" % (type(e).__name__, "frac>6" if digits > 6 else "frac<=6"), "%r raised %r; it denotes %d us" % (s, e, want))]
    if round(got * 1_000_000) != want:
        off = s[-6:] if not s.endswith("Z") else "Z"
        kind = "minute-offset" if off != "Z" and off[-2:] != "00" else "whole-hour-offset"
        return [("wrong-instant:%s" % kind, "%r parsed as %.6f, it denotes %.6f" % (s, got, want / 1e6))]
    return []


def pure_shard(k, seed, tier, nshards=1, digits=tuple(range(10))):
    camp = Campaign(PID, rule=RULE, tier=tier, seed=seed)
    offsets = [None] + list(range(-23 * 60 - 59, 23 * 60 + 60))
    n = 0
    for oi, off in enumerate(offsets):
        if oi % nshards != k:
            continue
        for base in BASES:
            for d in digits:
                frac = (987654321 + base + (off or 0)) % (10 ** d) if d else 0
                if off is None:
                    s = timefmt.render(base, 0, d, frac, zulu=True)
                else:
                    s = timefmt.render(base, off, d, frac)
                case = {"kind": "timestamp", "s": s}
                nt = (off is not None and off % 60 != 0) or d > 6
                camp.case(case, nontrivial=nt, classes=["pure", "digits-%d" % d])
                for b, dd in check_timestamp(s):
                    camp.fail(b, case, dd)
                n += 1
    camp.extra["timestamps_swept"] = n
    return camp.export()


# ---------------------------------------------------------------- engine part
def terminal_time(w, arn):
    for n in w.notifications_for(arn):
        if n["body"]["detail"]["status"] != "RUNNING":
            return n["t"], n["body"]["detail"]
    return None, None


def engine_publishes_since(w, seq):
    return [o for o in w.broker.oplog[seq:] if o["kind"] == "publish" and str(o["owner"]).startswith("engine:")]


def run_scenario(sc):
    """sc: dict(kind, tz, ...) -> list of (bucket, detail)"""
    from .. import world as W
    from .. import harness as H
    fails = []
    w = W.World(seed=8, tz=ZONES[sc.get("tz", "UTC")], tick=0.0)
    try:
        w.add_engine("A")
        kind = sc["kind"]
        t0 = w.clock.now
        arn_sm = W.sm_arn("m")
        if kind == "wait":
            how = sc["how"]
            s = sc["seconds"]
            st = {"Type": "Wait", "End": True}
            data = {"n": s}
            if how == "Seconds":
                st["Seconds"] = s
            elif how == "SecondsPath":
                st["SecondsPath"] = "$.n"
            else:
                target_epoch = int(t0) + s
                ts = timefmt.render(target_epoch, sc.get("offset", 0), sc.get("digits", 0), sc.get("frac", 0))
                if how == "Timestamp":
                    st["Timestamp"] = ts
                else:
                    st["TimestampPath"] = "$.ts"
                    data["ts"] = ts
            definition = {"StartAt": "P", "States": {"P": {"Type": "Pass", "Next": "W"}, "W": st}}
            w.create_state_machine("m", definition)
            _, r = w.start_execution(arn_sm, data, name="e")
            arn = r["executionArn"]
            w.step(0)                                 # start event -> Pass; the Wait event is now queued, EnteredTime = t0
            entered = w.clock.now
            if how in ("Seconds", "SecondsPath"):
                target = entered + s
            else:
                target = timefmt.parse_us(ts) / 1e6
            w.clock.advance_to(entered + sc.get("delivery_delay", 0))
            if sc.get("crash_after") is not None:
                w.step(0)                             # deliver the Wait event: timer armed
                w.clock.advance_to(entered + sc.get("delivery_delay", 0) + sc["crash_after"])
                w.crash_engine("A")
                w.clock.advance_to(w.clock.now + sc.get("down_for", 0))
                w.restart_engine("A")
                redelivery = w.clock.now
            else:
                redelivery = entered + sc.get("delivery_delay", 0)
            w.run()
            t_end, detail = terminal_time(w, arn)
            expect = max(target, redelivery)
            if t_end is None:
                fails.append(("wait-never-completes:%s" % how, "scenario %s: no terminal notification" % json.dumps(sc)))
            else:
                if detail["status"] != "SUCCEEDED":
                    fails.append(("wait-status:%s" % how, "scenario %s ended %s %s" % (json.dumps(sc), detail["status"], detail.get("error"))))
                if t_end < target - TOL:
                    fails.append(("wait-fires-early:%s" % how, "scenario %s: completed %.6f s before its target" % (json.dumps(sc), target - t_end)))
                elif abs(t_end - expect) > 1e-3:
                    fails.append(("wait-fires-late:%s" % how, "scenario %s: completed at target%+.6f, expected max(target, delivery)%+.6f" % (
                        json.dumps(sc), t_end - target, expect - target)))
        elif kind == "task-timeout":
            T, d = sc["timeout"], sc["reply_delay"]
            st = {"Type": "Task", "Resource": W.fn_arn("f"), "TimeoutSeconds": T, "End": True}
            if sc.get("catch"):
                st["Catch"] = [{"ErrorEquals": [sc["catch"]], "Next": "H"}]
            if sc.get("retry"):
                st["Retry"] = [{"ErrorEquals": [sc["retry"]], "IntervalSeconds": 1, "MaxAttempts": 1, "BackoffRate": 1.0}]
            definition = {"StartAt": "T", "States": {"T": st, "H": {"Type": "Pass", "Result": "handled", "End": True}}}
            w.create_state_machine("m", definition)
            calls = []

            def script(i, payload, props):
                calls.append(w.clock.now)
                if i >= 1:
                    return [(0.25, {"second": True})]
                return [] if d is None else [(d, {"ok": True})]
            w.add_worker("f", script)
            _, r = w.start_execution(arn_sm, {}, name="e")
            arn = r["executionArn"]
            entered = w.clock.now
            dd = sc.get("delivery_delay", 0)
            w.clock.advance_to(entered + dd)
            w.run()
            t_end, detail = terminal_time(w, arn)
            replied_in_time = d is not None and dd + d < T
            if t_end is None:
                fails.append(("task-never-completes", "scenario %s" % json.dumps(sc)))
            elif replied_in_time:
                if detail["status"] != "SUCCEEDED" or abs(t_end - (entered + dd + d)) > 1e-3:
                    fails.append(("task-reply-before-deadline", "scenario %s: ended %s/%s at entry%+.6f, expected SUCCEEDED at entry%+.6f" % (
                        json.dumps(sc), detail["status"], detail.get("error"), t_end - entered, dd + d)))
            else:
                deadline = entered + T
                if sc.get("retry") in ("States.Timeout", "States.ALL"):
                    want_status, want_t = "SUCCEEDED", max(deadline, entered + dd) + 1 + 0.25
                elif sc.get("catch") in ("States.Timeout", "States.ALL"):
                    want_status, want_t = "SUCCEEDED", max(deadline, entered + dd)
                else:
                    want_status, want_t = "FAILED", max(deadline, entered + dd)
                if detail["status"] != want_status or (want_status == "FAILED" and detail.get("error") != "States.Timeout"):
                    fails.append(("task-timeout-outcome", "scenario %s: ended %s/%s, expected %s" % (json.dumps(sc), detail["status"], detail.get("error"), want_status)))
                elif t_end < deadline - TOL:
                    fails.append(("task-timeout-early", "scenario %s: timed out %.6f s before entry+TimeoutSeconds" % (json.dumps(sc), deadline - t_end)))
                elif abs(t_end - want_t) > 1e-3:
                    fails.append(("task-timeout-late", "scenario %s: ended at entry%+.6f expected entry%+.6f" % (json.dumps(sc), t_end - entered, want_t - entered)))
            # dead timer: nothing may happen once the execution is terminal
            if t_end is not None:
                seq = len(w.broker.oplog)
                nn = len(w.notifications)
                w.advance(max(T, d or 0) + 5)
                late = engine_publishes_since(w, seq)
                if late or len(w.notifications) != nn:
                    fails.append(("dead-timer-fired", "scenario %s: %d publishes / %d notifications after the terminal status" % (json.dumps(sc), len(late), len(w.notifications) - nn)))
        elif kind == "execution-timeout":
            X = sc["timeout"]
            blocker = sc["blocker"]
            if blocker == "wait":
                st = {"Type": "Wait", "Seconds": X + sc.get("extra", 5), "End": True}
            else:
                st = {"Type": "Task", "Resource": W.fn_arn("f"), "End": True}
                if sc.get("task_timeout"):
                    st["TimeoutSeconds"] = sc["task_timeout"]
                if sc.get("handlers"):
                    if not sc.get("catch_only"):
                        st["Retry"] = [{"ErrorEquals": [sc["handlers"]], "IntervalSeconds": 1, "MaxAttempts": 2}]
                    st["Catch"] = [{"ErrorEquals": [sc["handlers"]], "Next": "H"}]
            states = {"B": st, "H": {"Type": "Pass", "Result": "handled", "End": True}}
            start = "B"
            if sc.get("lead"):
                states["L"] = {"Type": "Task", "Resource": W.fn_arn("g"), "Next": "B"}
                start = "L"
            definition = {"StartAt": start, "TimeoutSeconds": X, "States": states}
            w.create_state_machine("m", definition)
            w.add_worker("f", lambda i, p, props: [] if sc.get("reply_delay") is None else [(sc["reply_delay"], {"ok": 1})])
            w.add_worker("g", lambda i, p, props: [(sc.get("lead", 0), {"lead": 1})])
            _, r = w.start_execution(arn_sm, {}, name="e")
            arn = r["executionArn"]
            started = w.clock.now
            if sc.get("late"):
                # the start event is delivered only after the execution deadline (and the Task's own, shorter, time-out) have passed
                w.clock.advance_to(started + X + sc["late"])
            w.run()
            t_end, detail = terminal_time(w, arn)
            if sc.get("late"):
                if t_end is None or detail["status"] != "FAILED" or detail.get("error") != "States.Timeout":
                    fails.append(("execution-timeout-intercepted" if sc.get("handlers") else "execution-timeout-outcome",
                                  "scenario %s (event handled %s s after the execution deadline): ended %s/%s, expected FAILED/States.Timeout" % (
                                      json.dumps(sc), sc["late"], detail and detail["status"], detail and detail.get("error"))))
                return fails
            total = (sc.get("lead") or 0) + (sc["reply_delay"] if blocker == "task" and sc.get("reply_delay") is not None else (X + sc.get("extra", 5) if blocker == "wait" else 1e9))
            if t_end is None:
                fails.append(("execution-never-completes", "scenario %s" % json.dumps(sc)))
            elif total < X:
                if detail["status"] != "SUCCEEDED":
                    fails.append(("execution-timeout-spurious", "scenario %s finished in %.3f s < TimeoutSeconds but ended %s/%s" % (json.dumps(sc), total, detail["status"], detail.get("error"))))
            else:
                if detail["status"] != "FAILED" or detail.get("error") != "States.Timeout":
                    fails.append(("execution-timeout-intercepted" if sc.get("handlers") else "execution-timeout-outcome",
                                  "scenario %s: ended %s/%s output=%s, expected FAILED/States.Timeout" % (json.dumps(sc), detail["status"], detail.get("error"), detail.get("output"))))
                elif t_end < started + X - TOL:
                    fails.append(("execution-timeout-early", "scenario %s: %.6f s early" % (json.dumps(sc), started + X - t_end)))
                elif abs(t_end - (started + X)) > 1e-3:
                    fails.append(("execution-timeout-late", "scenario %s: ended at start%+.6f, expected start+%d" % (json.dumps(sc), t_end - started, X)))
        elif kind == "execution-timeout-retry":
            # the execution deadline passes while a failed Task is waiting out its Retry interval (nothing is in flight, no timer of a state is armed)
            X, iv = sc["timeout"], sc["timeout"] + sc["extra"]
            st = {"Type": "Task", "Resource": W.fn_arn("f"), "End": True, "Retry": [{"ErrorEquals": ["Boom"], "IntervalSeconds": iv, "MaxAttempts": 2, "BackoffRate": 1.0}]}
            if sc.get("catch"):
                st["Catch"] = [{"ErrorEquals": ["States.ALL"], "Next": "H"}]
            definition = {"StartAt": "B", "TimeoutSeconds": X, "States": {"B": st, "H": {"Type": "Pass", "Result": "handled", "End": True}}}
            w.create_state_machine("m", definition)
            w.add_worker("f", lambda i, p, props: [(sc["fail_after"], {"errorType": "Boom", "errorMessage": "x"})] if i == 0 else [(0, {"ok": i})])
            _, r = w.start_execution(arn_sm, {}, name="e")
            arn = r["executionArn"]
            started = w.clock.now
            w.run()
            t_end, detail = terminal_time(w, arn)
            late_requests = [q for q in w.workers["f"].requests if q["t"] > started + X + 1e-3]
            if t_end is None:
                fails.append(("execution-never-completes", "scenario %s" % json.dumps(sc)))
            elif detail["status"] != "FAILED" or detail.get("error") != "States.Timeout":
                fails.append(("execution-timeout-outcome:retry-interval", "scenario %s: ended %s/%s at start%+.3f, expected FAILED/States.Timeout at start+%d" % (
                    json.dumps(sc), detail["status"], detail.get("error"), t_end - started, X)))
            elif abs(t_end - (started + X)) > 1e-3:
                fails.append(("execution-timeout-late:retry-interval" if t_end > started + X else "execution-timeout-early", "scenario %s: ended at start%+.6f, expected start+%d" % (json.dumps(sc), t_end - started, X)))
            if late_requests:
                fails.append(("request-after-execution-deadline", "scenario %s: the task was requested again at start%+.3f, after the execution deadline" % (json.dumps(sc), late_requests[0]["t"] - started)))
        elif kind == "cancelled-wait":
            definition = {"StartAt": "P", "States": {"P": {"Type": "Parallel", "End": True, "Branches": [
                {"StartAt": "W", "States": {"W": {"Type": "Wait", "Seconds": sc["seconds"], "End": True}}},
                {"StartAt": "T", "States": {"T": {"Type": "Task", "Resource": W.fn_arn("f"), "End": True}}}]}}}
            w.create_state_machine("m", definition)
            w.add_worker("f", lambda i, p, props: [(sc["fail_after"], {"errorType": "Boom", "errorMessage": "x"})])
            _, r = w.start_execution(arn_sm, {}, name="e")
            arn = r["executionArn"]
            started = w.clock.now
            w.run()
            t_end, detail = terminal_time(w, arn)
            if t_end is None or detail["status"] != "FAILED" or detail.get("error") != "Boom":
                fails.append(("cancelled-wait-outcome", "scenario %s: %r" % (json.dumps(sc), detail)))
            elif abs(t_end - (started + sc["fail_after"])) > 1e-3:
                fails.append(("cancelled-wait-late", "scenario %s: Parallel failed at start%+.6f, expected start+%s (the sibling Wait must not delay it)" % (json.dumps(sc), t_end - started, sc["fail_after"])))
            seq = len(w.broker.oplog)
            nn = len(w.notifications)
            w.advance(sc["seconds"] + 5)
            late = engine_publishes_since(w, seq)
            if late or len(w.notifications) != nn:
                fails.append(("dead-timer-fired", "scenario %s: cancelled Wait still produced %d publishes / %d notifications" % (json.dumps(sc), len(late), len(w.notifications) - nn)))
        elif kind == "map-blocks":
            # Waits and task time-outs inside the iterations of a Map, incl. MaxConcurrency blocks after the first (whose iterations are launched when the previous
            # block has finished, i.e. later than the Map state itself was entered) and a Map event that is delivered late: every iteration's clock starts when
            # the iteration is entered
            n, mc, secs, late = sc["items"], sc["mc"], sc["seconds"], sc.get("late", 0)
            if sc["inner"] == "wait":
                inner = {"Type": "Wait", "Seconds": secs, "End": True}
            else:
                inner = {"Type": "Task", "Resource": W.fn_arn("f"), "TimeoutSeconds": secs, "End": True}
                w.add_worker("f", lambda i, p, props: [(secs - 1, p)])          # every reply comes one second before that iteration's own deadline
            mp = {"Type": "Map", "ItemsPath": "$.items", "MaxConcurrency": mc, "ItemProcessor": {"StartAt": "I", "States": {"I": inner}}, "End": True}
            if sc.get("selector"):
                mp["ItemSelector"] = {"v.$": "$$.Map.Item.Value"}
            definition = {"StartAt": "P", "States": {"P": {"Type": "Pass", "Next": "M"}, "M": mp}}
            w.create_state_machine("m", definition)
            _, r = w.start_execution(arn_sm, {"items": list(range(n))}, name="e")
            arn = r["executionArn"]
            w.step(0)                                 # start event -> Pass; the Map event is queued
            entered = w.clock.now
            w.clock.advance_to(entered + late)        # the Map event is delivered late
            w.run()
            t_end, detail = terminal_time(w, arn)
            blocks = 1 if not mc else -(-n // mc)
            per = secs if sc["inner"] == "wait" else secs - 1
            expect = entered + late + blocks * per
            if t_end is None or detail["status"] != "SUCCEEDED":
                fails.append(("map-iteration-clock:%s-%s" % (sc["inner"], "ended-" + str(detail and detail.get("error"))), "scenario %s: ended %r (an iteration's Task timed out although its reply came a second before its own deadline, or the run never ended)" % (
                    json.dumps(sc), detail and {k: detail.get(k) for k in ("status", "error")})))
            elif t_end < expect - 1e-3:
                fails.append(("map-iteration-fires-early:%s" % sc["inner"], "scenario %s: %d blocks of %s s finished %.3f s after the Map was delivered, not before %.3f s possible" % (json.dumps(sc), blocks, per, t_end - entered - late, blocks * per)))
            elif t_end > expect + 1e-3:
                fails.append(("map-iteration-fires-late:%s" % sc["inner"], "scenario %s: finished at +%.3f, expected +%.3f" % (json.dumps(sc), t_end - entered - late, blocks * per)))
        elif kind == "child-clock":
            # a child execution launched synchronously by a Task whose event is handled late: the child's clocks (its start-state Wait, its own TimeoutSeconds) start
            # when the child is started, not when the launching state was entered
            secs, late = sc["seconds"], sc.get("late", 0)
            if sc["inner"] == "wait":
                cdef = {"StartAt": "W", "States": {"W": {"Type": "Wait", "Seconds": secs, "End": True}}}
                per = secs
            else:
                cdef = {"TimeoutSeconds": secs, "StartAt": "T", "States": {"T": {"Type": "Task", "Resource": W.fn_arn("f"), "End": True}}}
                w.add_worker("f", lambda i, p, props: [(secs - 1, p)])          # the reply comes one second before the child's own deadline
                per = secs - 1
            w.create_state_machine("c", cdef, type_="EXPRESS" if sc["form"] == "sdk" else "STANDARD")
            res_ = {"sync": "arn:aws:states:::states:startExecution.sync", "sync2": "arn:aws:states:::states:startExecution.sync:2", "sdk": "arn:aws:states:::aws-sdk:sfn:startSyncExecution"}[sc["form"]]
            definition = {"StartAt": "P", "States": {"P": {"Type": "Pass", "Next": "L"}, "L": {"Type": "Task", "Resource": res_, "Parameters": {"StateMachineArn": W.sm_arn("c"), "Input": {"a": 1}}, "End": True}}}
            w.create_state_machine("m", definition)
            _, r = w.start_execution(arn_sm, {}, name="e")
            arn = r["executionArn"]
            w.step(0)                                 # start event -> Pass; the launching Task's event is queued
            entered = w.clock.now
            w.clock.advance_to(entered + late)        # ... and handled late
            w.run()
            t_end, detail = terminal_time(w, arn)
            expect = entered + late + per
            if t_end is None or detail["status"] != "SUCCEEDED":
                fails.append(("child-clock:%s-ended-%s" % (sc["inner"], str(detail and detail.get("error"))), "scenario %s: the parent ended %r" % (json.dumps(sc), detail and {k: detail.get(k) for k in ("status", "error", "cause")})))
            elif t_end < expect - 1e-3:
                fails.append(("child-clock-fires-early:%s" % sc["inner"], "scenario %s: finished %.3f s after the launching Task was handled, not before %.3f s possible" % (json.dumps(sc), t_end - entered - late, per)))
            elif t_end > expect + 1e-3:
                fails.append(("child-clock-fires-late:%s" % sc["inner"], "scenario %s: finished at +%.3f, expected +%.3f" % (json.dumps(sc), t_end - entered - late, per)))
        else:
            raise HarnessError("unknown scenario kind %r" % kind)
        terms = {}
        for n in w.notifications:
            d_ = n["body"]["detail"]
            if d_["status"] != "RUNNING":
                terms.setdefault(d_.get("executionArn"), []).append(d_["status"])
        terms = next((v for v in terms.values() if len(v) > 1), [])
        if len(terms) > 1:
            fails.append(("dead-timer-fired", "scenario %s: a superseded timer still acted: terminal notifications %r" % (json.dumps(sc), terms)))
        if w.broker.protocol_errors:
            fails.append(("protocol-error", repr(w.broker.protocol_errors[:2])))
    finally:
        w.close()
    return fails


def engine_shard(k, seed, tier, examples=40):
    import hypothesis
    from hypothesis import given, settings, HealthCheck, Phase, strategies as st
    camp = Campaign(PID, rule=RULE, tier=tier, seed=seed)
    tz = st.sampled_from(list(ZONES))
    delays = st.sampled_from([0, 0, 0.5, 1, 2.5, 7])

    wait = st.fixed_dictionaries({"kind": st.just("wait"), "tz": tz, "how": st.sampled_from(["Seconds", "SecondsPath", "Timestamp", "TimestampPath"]),
                                  "seconds": st.integers(1, 5), "delivery_delay": delays,
                                  "offset": st.sampled_from([0, 60, -300, 330, -210, 765, 1439, -1439, 1]), "digits": st.sampled_from([0, 0, 3, 6]),
                                  "frac": st.just(0)})
    wait_crash = st.fixed_dictionaries({"kind": st.just("wait"), "tz": tz, "how": st.sampled_from(["Seconds", "Timestamp"]), "seconds": st.integers(2, 6),
                                        "delivery_delay": st.just(0), "crash_after": st.sampled_from([0.5, 1, 1.5]),
                                        "down_for": st.sampled_from([0, 0.25, 3, 10]), "offset": st.sampled_from([0, 330, -210]), "digits": st.just(0), "frac": st.just(0)})
    task = st.fixed_dictionaries({"kind": st.just("task-timeout"), "tz": tz, "timeout": st.integers(1, 5),
                                  "reply_delay": st.one_of(st.none(), st.sampled_from([0.25, 0.5])), "delivery_delay": st.sampled_from([0, 0, 0.25]),
                                  "catch": st.sampled_from([None, None, "States.Timeout", "States.ALL", "Other"]),
                                  "retry": st.sampled_from([None, None, "States.Timeout", "Other"])}).map(_near_deadline)
    xt = st.fixed_dictionaries({"kind": st.just("execution-timeout"), "tz": tz, "timeout": st.integers(2, 6), "blocker": st.sampled_from(["wait", "task"]),
                                "reply_delay": st.one_of(st.none(), st.sampled_from([1, 3, 8])), "handlers": st.sampled_from([None, "States.ALL", "States.Timeout"]), "catch_only": st.booleans(),
                                "lead": st.sampled_from([0, 0, 1]), "extra": st.sampled_from([1, 5])})
    xt_late = st.fixed_dictionaries({"kind": st.just("execution-timeout"), "tz": tz, "timeout": st.integers(3, 6), "blocker": st.just("task"), "reply_delay": st.none(),
                                     "handlers": st.sampled_from(["States.ALL", "States.Timeout"]), "lead": st.just(0), "task_timeout": st.integers(1, 2),
                                     "late": st.sampled_from([0.5, 2]), "catch_only": st.booleans()})
    cw = st.fixed_dictionaries({"kind": st.just("cancelled-wait"), "tz": tz, "seconds": st.integers(3, 9), "fail_after": st.sampled_from([0, 0.5, 2])})

    xt_retry = st.fixed_dictionaries({"kind": st.just("execution-timeout-retry"), "tz": tz, "timeout": st.integers(3, 8), "extra": st.sampled_from([2, 10, 100]), "fail_after": st.sampled_from([0, 1]),
                                      "catch": st.booleans()})
    mapb = st.fixed_dictionaries({"kind": st.just("map-blocks"), "tz": tz, "items": st.integers(2, 4), "mc": st.sampled_from([0, 1, 1, 2]), "seconds": st.integers(2, 5),
                                  "inner": st.sampled_from(["wait", "task"]), "late": st.sampled_from([0, 0, 3]), "selector": st.booleans()})

    childc = st.fixed_dictionaries({"kind": st.just("child-clock"), "tz": tz, "form": st.sampled_from(["sync", "sync2", "sdk"]), "seconds": st.integers(3, 8),
                                    "inner": st.sampled_from(["wait", "timeout"]), "late": st.sampled_from([0, 2, 5])})

    @hypothesis.seed(seed)
    @settings(max_examples=examples, deadline=None, database=None, suppress_health_check=list(HealthCheck), phases=[Phase.generate])
    @given(st.one_of(wait, wait, wait_crash, task, task, xt, xt_late, cw, mapb, xt_retry, childc))
    def run(sc):
        try:
            fails = run_scenario(sc)
        except HarnessError as e:
            camp.harness_error(e)
            return
        except Exception as e:
            camp.harness_error("scenario %s crashed: %r %s" % (json.dumps(sc), e, traceback.format_exc()[-700:]))
            return
        nt = sc.get("tz") != "UTC" or sc.get("delivery_delay", 0) != 0 or sc.get("crash_after") is not None or sc.get("near")
        camp.case(sc, nontrivial=bool(nt), classes=["engine", "kind-" + sc["kind"], "tz-" + sc.get("tz", "UTC")] + (["crash+redelivery"] if sc.get("crash_after") is not None else []))
        for b, d in fails:
            camp.fail(b, sc, d)

    run()
    return camp.export()


def _near_deadline(sc):
    """Half of the task scenarios reply within 0.5 s of the deadline (before or after)."""
    sc = dict(sc)
    if sc["reply_delay"] is not None:
        before = sc["reply_delay"] == 0.25
        sc["reply_delay"] = sc["timeout"] - 0.5 if before else sc["timeout"] + 0.5
        sc["near"] = True
        if before and sc["delivery_delay"] + sc["reply_delay"] >= sc["timeout"]:
            sc["delivery_delay"] = 0
    return sc


def replay_case(case):
    if case.get("kind") == "timestamp":
        return check_timestamp(case["s"])
    return run_scenario(case)


def calibrate():
    import datetime
    for s in ("2016-03-14T07:29:00+05:30", "2020-02-29T23:59:59.999999+23:59", "1970-01-01T00:00:00-00:01", "2038-01-19T03:14:07Z",
              "1999-12-31T23:59:59.5-12:45"):
        want = datetime.datetime.fromisoformat(s.replace("Z", "+00:00"))
        us = int(round((want - datetime.datetime(1970, 1, 1, tzinfo=datetime.timezone.utc)).total_seconds() * 1e6))
        if timefmt.parse_us(s) != us:
            raise HarnessError("ref.timefmt calibration failed on %s" % s)
    for base in BASES:
        for off in (-1439, -210, 0, 330, 765, 1439):
            if timefmt.parse_us(timefmt.render(base, off, 3, 250)) != base * 1_000_000 + 250_000:
                raise HarnessError("timefmt render/parse round trip failed")


def main(tier, seed, replay=None):
    camp = Campaign(PID, rule=RULE, tier=tier, seed=seed)
    camp.assumptions = [
        "instants are compared on the virtual clock; 'never before' uses a 2 us tolerance (EnteredTime is carried as an ISO string with microsecond resolution), equality uses 1 ms",
        "leap seconds, lower-case t/z and surrounding whitespace are not generated; fractions beyond microseconds are truncated by the reference",
        "a worker reply exactly at a deadline is not generated (tie)",
    ]
    try:
        calibrate()
        repo_parse()
    except HarnessError as e:
        camp.harness_error(e)
        return camp.finish()
    if replay:
        with open(replay) as fp:
            rec = json.load(fp)
        for b, d in replay_case(rec["case"]):
            camp.fail(b, rec["case"], d)
        camp.case(rec["case"], True)
        camp.min_nontrivial = 0
        camp.write_evidence = False
        return camp.finish()
    camp.run_witnesses(replay_case)
    if tier == "thorough":
        run_shards(camp, __name__, "pure_shard", 16, nshards=16)
        run_shards(camp, __name__, "engine_shard", 16, examples=600)
    else:
        run_shards(camp, __name__, "pure_shard", 8, nshards=8)
        run_shards(camp, __name__, "engine_shard", 8, examples=40)
    camp.exhaustive = False
    camp.extra["exhaustive_subdomain"] = "the RFC 3339 sweep (2879 offsets + Z) x (0..9 fractional digits) x 6 base instants is enumerated completely in both tiers"
    return camp.finish()
