"""Common body of the monitor-based checks (C02, C03, C09, C11)."""
import copy, json, traceback

from .. import env
from ..runner import Campaign, HarnessError, run_shards
from .. import sched as S


class Spec:
    def __init__(self, pid, monitors, rule, assumptions, cfg=None, nontrivial=None, extra=None, multi=True, quick=(8, 100), thorough=(16, 1200),
                 max_sched=40, run_kwargs=None, variants=None):
        self.pid, self.monitors, self.rule, self.assumptions = pid, monitors, rule, assumptions
        self.cfg = cfg or dict(S.CFG_SCHED)
        self.nontrivial = nontrivial or (lambda case, sched, starts, info: any(sched) and (len(starts) > 1 or any(f in case.get("features", []) for f in ("Parallel", "Map"))))
        self.extra = extra          # fn(case, sched, starts, result) -> [(bucket, detail)]
        self.multi = multi
        self.quick, self.thorough = quick, thorough
        self.max_sched = max_sched
        self.run_kwargs = run_kwargs or {}
        self.variants = variants    # optional fn(draw) -> dict of extra run kwargs


SPECS = {}


def evaluate(spec, case, sched, starts, seed=0, extra_kwargs=None):
    kw = dict(spec.run_kwargs)
    kw.update(extra_kwargs or {})
    res = S.run_monitored(case, sched, want=spec.monitors, seed=seed, starts=starts, **kw)
    fails = []
    for mon in spec.monitors:
        fails.extend(res["fails"].get(mon, []))
    if spec.extra:
        fails.extend(spec.extra(case, sched, starts, res))
    # drain clauses are reported separately for runs in which a fan-out was cut short by a failure
    # (the engine's sibling-termination protocol) and for runs without any failure
    failed = any((o or {}).get("status") == "FAILED" for o in res["info"].get("outcomes", {}).values())
    fanout = '"Type": "Parallel"' in json.dumps(case["definition"]) or '"Type": "Map"' in json.dumps(case["definition"])
    suffix = ":failed-fanout" if (failed and fanout) else ":no-failed-fanout"
    fails = [((b + suffix) if b.startswith("drain:") or b.startswith("delivery-never-acknowledged") else b, d) for b, d in fails]
    return fails, res


def shard(k, seed, tier, pid=None, examples=50):
    import hypothesis
    from hypothesis import given, settings, HealthCheck, Phase, strategies as st
    spec = SPECS[pid]
    camp = Campaign(pid, rule=spec.rule, tier=tier, seed=seed)
    cfg = dict(spec.cfg)
    if tier == "thorough":
        cfg.update(max_states=12, max_branches=4)
    strat = S.cases_with_schedules(cfg, max_sched=spec.max_sched * (4 if tier == "thorough" else 1), multi=spec.multi)
    if spec.variants:
        strat = st.tuples(strat, spec.variants())
    else:
        strat = st.tuples(strat, st.just({}))

    @hypothesis.seed(seed)
    @settings(max_examples=examples, deadline=None, database=None, suppress_health_check=list(HealthCheck), phases=[Phase.generate])
    @given(strat)
    def run(t):
        (case, sched, starts), variant = t
        c = {"definition": case["definition"], "input": case["input"], "oracle": case["oracle"], "type": case["type"],
             "schedule": sched, "starts": starts, "variant": variant}
        try:
            fails, res = evaluate(spec, case, sched, starts, seed=seed, extra_kwargs=variant)
        except Exception as e:
            camp.harness_error("case crashed the harness: %r %s case=%s" % (e, traceback.format_exc()[-900:], json.dumps(c)[:800]))
            return
        info = res["info"]
        nt = spec.nontrivial(case, sched, starts, info)
        classes = ["type-" + case["type"], "execs-%d" % len(starts), "schedule-" + ("canonical" if not any(sched) else "deviating")]
        classes += ["f:" + f for f in case.get("features", []) if f in ("Parallel", "Map", "Wait", "Choice", "Retry", "Catch", "task-error", "fanout-with-failing-branch",
                                                                        "fanout-Catch", "fanout-Retry", "catch-taken", "map-failing-item", "nesting-depth-2")]
        classes += ["start-" + s["mode"] for s in starts[1:]]
        classes += ["variant-%s=%s" % kv for kv in sorted(variant.items())]
        sample = dict(c, outcomes=info.get("outcomes"), steps=info.get("steps"), trace=info.get("trace", [])[:25])
        camp.case(c, nontrivial=bool(nt), classes=classes, sample=sample)
        for b, d in fails:
            camp.fail(b, c, d)
    run()
    return camp.export()


def replay_case(pid, case):
    spec = SPECS[pid]
    c = {k: case[k] for k in ("definition", "input", "oracle", "type")}
    fails, _ = evaluate(spec, c, case.get("schedule", []), case.get("starts"), extra_kwargs=case.get("variant"))
    return fails


def main(pid, tier, seed, replay=None):
    spec = SPECS[pid]
    camp = Campaign(pid, rule=spec.rule, tier=tier, seed=seed)
    camp.assumptions = list(spec.assumptions)
    if replay:
        with open(replay) as fp:
            rec = json.load(fp)
        for b, d in replay_case(pid, rec["case"]):
            camp.fail(b, rec["case"], d)
        camp.case(rec["case"], True)
        camp.min_nontrivial = 0
        camp.write_evidence = False
        return camp.finish()
    camp.run_witnesses(lambda case: replay_case(pid, case))
    n, ex = spec.thorough if tier == "thorough" else spec.quick
    run_shards(camp, __name__, "shard", n, pid=pid, examples=ex)
    return camp.finish()
