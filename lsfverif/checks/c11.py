"""
C11 - all observability surfaces tell the same story about an execution.
SurfaceMonitor after every step (record vs latest notification vs last history event; CloudWatch shape, subject,
ms/seconds, once per status change) and, at the end, DescribeExecution / ListExecutions / GetExecutionHistory through
every engine instance that shares the store.
"""
from hypothesis import strategies as st

from . import _monitored as mon
from .. import sched as S

PID = "C11"
RULE = ("cases = (machine, 1-3 executions, schedule) x {STANDARD, EXPRESS} x store configuration {JSON file + in-memory, simulated Redis} x {1, 2 engine instances sharing "
        "the store}. After every step: the stored record, the latest status-change notification and the last history event agree on status / input / output / error; each status "
        "change is published once to '<stateMachineArn>.<status>' in the CloudWatch event shape with integer-millisecond dates while the stored record keeps epoch seconds. At the end "
        "DescribeExecution, ListExecutions and GetExecutionHistory answered by every instance equal the store. Non-trivial = at least two surfaces populated and a status change "
        "observed between two reads (every STANDARD execution that ends). Distinct by canonical JSON.")


def nontrivial(case, sched, starts, info):
    return case.get("type") == "STANDARD" and any((o or {}).get("status") in ("SUCCEEDED", "FAILED") for o in (info.get("outcomes") or {}).values())


def variants():
    import os
    if os.path.isdir(os.path.join(os.path.dirname(os.path.dirname(__file__)), "fakes", "redis")):
        return st.sampled_from([{"store": "file", "n_engines": 1}, {"store": "file", "n_engines": 1, "rerun_same_name": True}, {"store": "file", "n_engines": 1, "logging": "ALL"},
                                {"store": "redis", "n_engines": 1}, {"store": "redis", "n_engines": 2}, {"store": "redis", "n_engines": 2, "rerun_same_name": True}])
    return st.sampled_from([{"store": "file", "n_engines": 1}, {"store": "file", "n_engines": 1, "rerun_same_name": True}, {"store": "file", "n_engines": 1, "logging": "ALL"}])


mon.SPECS[PID] = mon.Spec(PID, ("surface", "exceptions"), RULE, [
    "Redis is the simulated server of lsfverif/fakes/redis (RESP2 client-tracking semantics) with pottery-like RedisDict/RedisList views; see DESIGN.md C20 for the fidelity assumptions",
    "with the file-backed configuration execution records live in process memory, so only one instance is used there",
], nontrivial=nontrivial, variants=variants)


def main(tier, seed, replay=None):
    return mon.main(PID, tier, seed, replay)
