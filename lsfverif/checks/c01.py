"""
C01 - executions compute what the Amazon States Language prescribes.

Differential test: generated (machine, input, task behaviour) triples run
through the real engine stack under the canonical schedule and through the
reference interpreter (lsfverif.ref.interp); terminal status, output and error
name are compared.
"""
import copy, json, traceback

from .. import env
from ..runner import Campaign, HarnessError, run_shards
from ..ref import interp as ri
from .. import harness as H

PID = "C01"
RULE = ("cases = (state machine, JSON input, task behaviour, STANDARD|EXPRESS) generated along the executed path by "
        "lsfverif.gen.machines (Pass, Task, Choice, Wait, Succeed, Fail, Parallel, Map; nesting and size per tier), run under the "
        "canonical FIFO schedule and compared with the reference interpreter. Non-trivial = at least 2 states executed and at least "
        "one of: non-default filter, Choice, fan-out, task error on the executed path. Distinct by canonical JSON of "
        "(definition, input, task behaviour).")

CFG_QUICK = {"max_states": 8, "max_depth": 2, "max_branches": 3, "max_seq": 4}
CFG_THOROUGH = {"max_states": 12, "max_depth": 2, "max_branches": 4, "max_seq": 6, "fanout_heavy": True}


def count_states(trace):
    n = 0
    for ev in trace:
        if ev[0] == "enter":
            n += 1
        elif ev[0] == "fanout":
            n += sum(count_states(bt) for bt in ev[2])
    return n


NONTRIVIAL_FEATURES = ("InputPath", "Parameters", "ResultPath", "OutputPath", "ResultSelector", "Choice", "Parallel", "Map",
                       "task-error", "task-error-then-ok", "ItemSelector", "catch-taken", "Retry", "Catch")


def evaluate(case, seed=0):
    """-> (fails [(bucket, detail)], info dict)"""
    info = {}
    try:
        it = ri.Interp(case["definition"], copy.deepcopy(case.get("oracle") or {}), t0=1_700_000_000.0,
                       execution={"Name": "e1"}, sm_arn="arn:aws:states:local:0123456789:stateMachine:m1")
        expected = it.run(copy.deepcopy(case["input"]))
    except ri.Unspec as e:
        return [], {"skip": "unspecified: %s" % e}
    if it.ambiguous_failure:
        return [], {"skip": "ambiguous concurrent failures (C06 territory)"}
    info["expected"] = repr(expected)
    info["states_executed"] = count_states(expected.trace)
    info["multi_retrier"] = it.multi_retrier
    w = None
    try:
        w, arn, _ = H.run_case(case, seed=seed)
        term = w.terminal(arn)
        observed = H.detail_outcome(term)
        fails = H.compare_outcome(expected, observed)
        if case.get("type", "STANDARD") == "STANDARD":
            st, rec = w.describe_execution(arn)
            if st != 200:
                fails.append(("describe-missing", "DescribeExecution -> %r %r" % (st, rec)))
            else:
                fails += [("describe-" + c, d) for c, d in H.compare_outcome(expected, H.detail_outcome(rec))]
        info["observed"] = observed
        for ex in w.engine_exceptions:
            fails.append(("engine-callback-exception:%s@%s" % (ex["type"], ex["where"].split(":")[0]), "%r" % (ex,)))
        if len([n for n in w.notifications_for(arn) if n["body"]["detail"]["status"] != "RUNNING"]) > 1:
            fails.append(("ended-more-than-once", "terminal notifications: %r" % [n["body"]["detail"]["status"] for n in w.notifications_for(arn)]))
    finally:
        if w is not None:
            w.close()
    inband = H.has_inband_error(expected)
    out = []
    explained = False
    if fails and inband:
        # is the disagreement exactly the engine's in-band "Error member means failure" convention (finding C01-F8)?
        alt = ri.Interp(case["definition"], copy.deepcopy(case.get("oracle") or {}), t0=1_700_000_000.0,
                        execution={"Name": "e1"}, sm_arn="arn:aws:states:local:0123456789:stateMachine:m1",
                        inband_convention=True)
        try:
            alt_expected = alt.run(copy.deepcopy(case["input"]))
            explained = not H.compare_outcome(alt_expected, info.get("observed"))
            k = 1
            while not explained and alt.ambiguous_failure and k < 4:
                # under the convention several branches "fail" at the same instant: any of them may be the one acted upon
                alt = ri.Interp(case["definition"], copy.deepcopy(case.get("oracle") or {}), t0=1_700_000_000.0, execution={"Name": "e1"},
                                sm_arn="arn:aws:states:local:0123456789:stateMachine:m1", inband_convention=True, choose_failure=lambda c, k=k: k)
                explained = not H.compare_outcome(alt.run(copy.deepcopy(case["input"])), info.get("observed"))
                k += 1
        except ri.Unspec:
            explained = False
    for clause, detail in fails:
        if explained:
            bucket = "inband-error-convention"
        elif it.multi_retrier:
            bucket = "multi-retrier:" + clause.split(":")[0]
        else:
            bucket = clause
        out.append((bucket, detail))
    info["inband"] = inband
    return out, info


def replay_case(case):
    fails, info = evaluate(case)
    return fails


def shard(k, seed, tier, examples=100):
    import hypothesis
    from hypothesis import given, settings, HealthCheck, Phase
    from ..gen import machines as gm
    camp = Campaign(PID, rule=RULE, tier=tier, seed=seed)
    cfg = CFG_THOROUGH if tier == "thorough" else CFG_QUICK

    @hypothesis.seed(seed)
    @settings(max_examples=examples, deadline=None, database=None, derandomize=False,
              suppress_health_check=list(HealthCheck), phases=[Phase.generate])
    @given(gm.machine_cases(cfg))
    def run(case):
        c = {k_: case[k_] for k_ in ("definition", "input", "oracle", "type")}
        try:
            fails, info = evaluate(c, seed=seed)
        except Exception as e:
            camp.harness_error("case crashed the harness: %r\n%s\ncase=%s" % (e, traceback.format_exc()[-1500:], json.dumps(c)[:1500]))
            return
        if "skip" in info:
            camp.count("skipped:" + info["skip"].split(":")[0])
            return
        feats = case["features"]
        nt = info["states_executed"] >= 2 and any(f in NONTRIVIAL_FEATURES for f in feats)
        classes = ["type-" + c["type"], "expected-" + info["expected"].split(",")[0].split("(")[1]] + ["f:" + f for f in feats]
        if info.get("inband"):
            classes.append("inband-error-data")
        sample = {"definition": c["definition"], "input": c["input"], "oracle": c["oracle"], "type": c["type"],
                  "expected": info["expected"], "observed": info.get("observed")}
        camp.case(c, nontrivial=nt, classes=classes, sample=sample)
        for b, d in fails:
            camp.fail(b, c, d)

    run()
    return camp.export()


def main(tier, seed, replay=None):
    camp = Campaign(PID, rule=RULE, tier=tier, seed=seed)
    camp.assumptions = [
        "canonical schedule only (schedule independence is C02/C05/C06); one engine instance, file-backed store",
        "definite paths only; Cause texts are not compared except a Fail state's own Cause",
        "task behaviour is a function of (function, payload, attempt number for that payload); workers reply with zero latency unless a delay is scripted",
        "cases where the reference interpreter declares the outcome unspecified are skipped and counted",
    ]
    if replay:
        with open(replay) as fp:
            rec = json.load(fp)
        for b, d in replay_case(rec["case"]):
            camp.fail(b, rec["case"], d)
        camp.case(rec["case"], True)
        camp.min_nontrivial = 0
        camp.write_evidence = False
        return camp.finish()
    camp.run_witnesses(replay_case)
    if tier == "thorough":
        run_shards(camp, __name__, "shard", 16, examples=1500)
    else:
        run_shards(camp, __name__, "shard", 8, examples=320)
    return camp.finish()
