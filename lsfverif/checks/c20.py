"""
C20 - stores act as dictionaries, persist definitions, and caches are never stale.

Model-based (stateful) testing of asl_workflow_engine.store: Hypothesis draws a sequence of
mapping operations over a small key/value pool; each is applied to the real store class
(JSONStore on a scratch file, SimpleStore, RedisDictStore / RedisListStore on the simulated
Redis server of lsfverif/fakes/redis with pottery-like containers) through one or two
clients (separate connections, as two engine processes have), and to a Python dict.  The
delivery of the server's cache-invalidation messages is an operation of its own, so every
placement of it between the other operations can be generated.
"""
import copy, json, os, traceback

from .. import env
from ..runner import Campaign, HarnessError, run_shards

PID = "C20"
RULE = ("case = (store kind in {json-file, in-memory, redis dict-of-dicts, redis dict-of-lists}, one or two clients, operation sequence over set / nested update / append / get / cached get / "
        "delete / contains / iterate / len / ttl + time / reopen / deliver-invalidations / unreadable-file). Non-trivial = the sequence has a write followed by a read of the same key through a "
        "different path (other client, cached view, or after reopen), or a cached read with an invalidation pending. Distinct by canonical JSON.")

KEYS = ["k1", "k2", "arn:aws:states:local:0123456789:stateMachine:m", "a:b", "k*", "K1"]
DICTS = [{"a": 1}, {"a": 2, "b": {"c": [1, 2]}}, {"definition": {"StartAt": "P", "States": {"P": {"Type": "Pass", "End": True}}}, "name": "m"}, {"s": "x y", "n": None, "t": True}, {"u": "é"}, {}]
LISTS = [[1], [{"id": 1, "type": "ExecutionStarted"}, {"id": 2}], ["a", "b", "c"], [[1, 2], {"x": None}], []]
FIELDS = ["a", "b", "new", "name"]
VALUES = [1, "v", None, {"n": [1]}, [1, 2], True, 1.5]
CACHE_SIZE = 2


def norm(v):
    return json.loads(json.dumps(v))


class Client:
    """One process's view: its own Redis connection and store instance."""
    def __init__(self, kind, ident, path=None):
        self.kind, self.ident, self.path = kind, ident, path
        self.open()

    def open(self):
        from asl_workflow_engine import store
        if self.kind == "json":
            self.s = store.JSONStore(self.path)
        elif self.kind == "memory":
            self.s = store.SimpleStore()
        else:
            if hasattr(store.RedisStore, "connection"):
                del store.RedisStore.connection      # every simulated process owns its connection
            cls = store.RedisDictStore if self.kind == "redis-dict" else store.RedisListStore
            self.s = cls("redis://c20:6379", "t", cache_size=CACHE_SIZE, daemon=True)
            self.conn = store.RedisStore.connection

    def use(self):
        """Make this client's connection the class-level one (what a separate process would see)."""
        if self.kind.startswith("redis"):
            from asl_workflow_engine import store
            store.RedisStore.connection = self.conn

    def close(self):
        if self.kind.startswith("redis"):
            try:
                self.s.stop()
            except Exception:
                pass


def plain(v):
    """Container returned by a store -> plain JSON value."""
    if v is None:
        return None
    if hasattr(v, "to_dict"):
        return v.to_dict()
    if hasattr(v, "to_list"):
        return v.to_list()
    if isinstance(v, dict):
        return {k: plain(x) for k, x in v.items()}
    if isinstance(v, (list, tuple)):
        return [plain(x) for x in v]
    return v


def run_sequence(sc):
    env.setup_paths(fakes=True)
    import redis as fake_redis
    fails = []
    kind = sc["kind"]
    is_redis = kind.startswith("redis")
    is_list = kind == "redis-list"
    fake_redis.reset()
    srv = fake_redis.server_for("redis://c20:6379") if is_redis else None
    if srv and sc.get("auto_deliver"):
        srv.auto_deliver = True          # a listener thread that keeps up: every invalidation is processed before the command that caused it returns
    path = os.path.join(env.workdir(), "c20_store_%d.json" % os.getpid())
    if os.path.exists(path):
        os.remove(path)
    if srv:
        # other tenants of the same database: keys of stores with other (similar) prefixes must never show up in this one
        admin = fake_redis.Redis(server=srv)
        admin.hset("tt:k1", "f", "1")
        admin.rpush("other:k9", "1")
        admin.set("t", "1")
        admin.hset("T:k1", "f", "1")
    clients = [Client(kind, i, path) for i in range(sc.get("clients", 1) if is_redis else 1)]
    model = {}                      # key -> current value
    history = {}                    # key -> every value the key has had (None = absent), for reads that may legitimately be stale
    expiry = {}
    file_model = {}                 # JSONStore: what the last top-level write put into the file (the whole in-memory store is dumped then)

    def remember(k):
        history.setdefault(k, [None]).append(copy.deepcopy(model.get(k)))

    def absent(v):
        return v is None or v == {} or v == []

    def same(got, want):
        if is_redis and absent(want):
            return absent(got)          # Redis cannot hold an empty hash / list: an empty value and an absent key are the same thing
        return norm(got) == norm(want) if want is not None else got is None

    try:
        for i, op in enumerate(sc["ops"]):
            c = clients[op.get("client", 0) % len(clients)]
            c.use()
            s = c.s
            o = op["op"]
            k = op.get("key")
            tag = "%s:%s" % (kind, o)
            try:
                if o == "set":
                    v = copy.deepcopy(op["value"])
                    s[k] = v
                    if is_redis and absent(v):
                        model.pop(k, None)
                        expiry.pop(k, None)
                    else:
                        model[k] = norm(v)
                        expiry.pop(k, None)
                    remember(k)
                    file_model = copy.deepcopy(model)
                elif o == "rmw":
                    # read - modify - write back the very object the store handed out
                    if k in model and not is_list:
                        v = s[k]
                        if is_redis:
                            v = plain(v)
                        v[op["field"]] = copy.deepcopy(op["value"])
                        s[k] = v
                        model[k][op["field"]] = norm(op["value"])
                        expiry.pop(k, None)
                        remember(k)
                        file_model = copy.deepcopy(model)
                elif o == "copy":
                    # the object the store handed out for one key is assigned under another key (or under the same one): the value is stored there, whatever it was read from
                    src = op["src"]
                    if is_redis and src in model:
                        s[k] = s[src]
                        model[k] = copy.deepcopy(model[src])
                        expiry.pop(k, None)
                        remember(k)
                        file_model = copy.deepcopy(model)
                elif o == "reset_equal":
                    # the key is set again to a value equal to the one it holds (e.g. after nested updates that the file store only keeps in memory)
                    if k in model:
                        s[k] = copy.deepcopy(model[k])
                        expiry.pop(k, None)
                        remember(k)
                        file_model = copy.deepcopy(model)
                elif o == "nested":
                    if k in model and not is_list:
                        s[k][op["field"]] = copy.deepcopy(op["value"])
                        model[k][op["field"]] = norm(op["value"])
                        remember(k)
                elif o == "append":
                    if is_list:
                        s[k].append(copy.deepcopy(op["value"]))
                        model.setdefault(k, []).append(norm(op["value"]))
                        remember(k)
                elif o == "get":
                    try:
                        got = plain(s[k])
                    except KeyError:
                        got = None
                    if not same(got, model.get(k)):
                        fails.append(("read-differs-from-last-write:" + tag, "op %d: %r -> %r, last written %r" % (i, k, got, model.get(k))))
                elif o == "getdefault":
                    got = plain(s.get(k))
                    if not same(got, model.get(k)):
                        fails.append(("read-differs-from-last-write:" + tag, "op %d: get(%r) -> %r, last written %r" % (i, k, got, model.get(k))))
                elif o == "cached":
                    try:
                        got = plain(s.get_cached_view(k))
                    except KeyError:
                        got = None
                    pending = bool(srv and srv.pending)
                    if pending or not is_redis:
                        ok = any(same(got, h) for h in history.get(k, [None])) or same(got, model.get(k))
                        if not is_redis:
                            ok = same(got, model.get(k))
                    else:
                        ok = same(got, model.get(k))
                    if not ok:
                        fails.append(("cached-view-stale-after-invalidation:" + tag if not pending else "cached-view-never-held-value:" + tag,
                                      "op %d: cached view of %r -> %r, current %r (invalidations pending: %s)" % (i, k, got, model.get(k), pending)))
                    if is_redis and s.cache is not None and len(s.cache) > CACHE_SIZE:
                        fails.append(("cache-over-capacity:" + kind, "cache holds %d entries, capacity %d" % (len(s.cache), CACHE_SIZE)))
                elif o == "delete":
                    try:
                        del s[k]
                        raised = False
                    except KeyError:
                        raised = True
                    if k in model:
                        if raised:
                            fails.append(("delete-of-present-key-raised:" + tag, repr(k)))
                        del model[k]
                        expiry.pop(k, None)
                        remember(k)
                        file_model = copy.deepcopy(model)
                elif o == "contains":
                    got = k in s
                    if got != (k in model):
                        fails.append(("membership-differs:" + tag, "op %d: %r in store -> %r, model %r" % (i, k, got, k in model)))
                elif o == "iterate":
                    got = sorted(list(s))
                    if got != sorted(model):
                        fails.append(("iteration-differs:" + tag, "op %d: %r, model %r" % (i, got, sorted(model))))
                elif o == "len":
                    got = len(s)
                    if got != len(model):
                        fails.append(("length-differs:" + tag, "op %d: len %r, model %r (keys %r)" % (i, got, len(model), sorted(model))))
                elif o == "ttl":
                    s.set_ttl(k, op["seconds"])
                    if is_redis and k in model:
                        expiry[k] = srv.now + op["seconds"]
                        got = c.conn.ttl("t:" + k)
                        if got != op["seconds"]:
                            fails.append(("ttl-not-applied:" + kind, "op %d: set_ttl(%r, %d) -> server ttl %r" % (i, k, op["seconds"], got)))
                elif o == "advance":
                    if is_redis:
                        srv.advance(op["seconds"])
                        for kk, dl in list(expiry.items()):
                            if dl <= srv.now:
                                expiry.pop(kk)
                                if kk in model:
                                    del model[kk]
                                    remember(kk)
                elif o == "deliver":
                    if srv:
                        srv.deliver(op.get("n"))
                elif o == "reopen":
                    c.close()
                    c.open()
                    if kind == "memory":
                        model.clear()
                        history.clear()
                    if kind == "json":
                        model.clear()
                        model.update(copy.deepcopy(file_model))
                elif o == "corrupt":
                    if kind == "json":
                        with open(path, "w") as fp:
                            fp.write(op["text"])
                        try:
                            c.open()
                        except Exception as e:
                            fails.append(("unreadable-store-file-crashes:%s" % type(e).__name__, "store file %r: %r" % (op["text"][:40], e)))
                            c.s = None
                            break
                        try:
                            n_ = len(c.s)
                        except Exception as e:
                            fails.append(("unreadable-store-file-crashes:%s" % type(e).__name__, "store file %r: len() -> %r" % (op["text"][:40], e)))
                            c.s = None
                            break
                        if n_ != 0:
                            fails.append(("unreadable-store-file-not-empty", "store file %r: %d entries" % (op["text"][:40], n_)))
                        model.clear()
                        history.clear()
                        file_model = {}
                elif o == "flush":
                    if srv:
                        # an administrator empties the database: the server announces it with a null key list
                        admin = fake_redis.Redis(server=srv)
                        for kk in list(srv.data):
                            del srv.data[kk]
                        srv.expiry.clear()
                        srv.tracking.clear()
                        for cid, cl in srv.clients.items():
                            if cl["tracking"]:
                                for ps in srv.subscribers.get("__redis__:invalidate", []):
                                    if ps.client_id == cl["redirect"]:
                                        srv._queue(ps, {"type": "message", "pattern": None, "channel": b"__redis__:invalidate", "data": None})
                        for kk in list(model):
                            del model[kk]
                            remember(kk)
                        expiry.clear()
                else:
                    raise HarnessError("unknown op %r" % (op,))
            except HarnessError:
                raise
            except Exception as e:
                tb = traceback.extract_tb(e.__traceback__)
                where = next((f for f in reversed(tb) if "/asl_workflow_engine/" in f.filename), tb[-1])
                fails.append(("operation-raises:%s:%s:%s" % (tag, type(e).__name__, where.name), "op %d %s: %r" % (i, json.dumps(op)[:200], e)))
                break
        # final sweep through every client: full content, after all invalidations have been delivered
        if srv:
            try:
                srv.deliver()
            except Exception as e:
                fails.append(("invalidation-handler-raises:%s" % type(e).__name__, repr(e)))
        for c in clients:
            if c.s is None:
                continue
            c.use()
            try:
                got = {k: plain(c.s[k]) for k in list(c.s)}
                if sorted(got) != sorted(model) or any(not same(got[k], model[k]) for k in model):
                    fails.append(("final-content-differs:" + kind, "client %d sees %r, model %r" % (c.ident, got, model)))
                if is_redis:
                    for k in KEYS:
                        v = plain(c.s.get_cached_view(k))
                        if not same(v, model.get(k)):
                            fails.append(("cached-view-stale-after-invalidation:%s:final" % kind, "client %d: cached view of %r -> %r, current %r" % (c.ident, k, v, model.get(k))))
                            break
            except Exception as e:
                fails.append(("final-read-raises:%s:%s" % (kind, type(e).__name__), repr(e)))
    finally:
        for c in clients:
            c.close()
        if os.path.exists(path):
            os.remove(path)
        if is_redis:
            from asl_workflow_engine import store
            if hasattr(store.RedisStore, "connection"):
                del store.RedisStore.connection
    return fails


# ------------------------------------------------------------------ generator
def strategies():
    from hypothesis import strategies as st
    key = st.sampled_from(KEYS[:3] * 3 + KEYS)

    def ops_for(kind, nclients):
        is_redis = kind.startswith("redis")
        is_list = kind == "redis-list"
        cl = st.integers(0, nclients - 1)
        value = st.sampled_from(LISTS if is_list else DICTS)
        o = [
            st.fixed_dictionaries({"op": st.just("set"), "key": key, "value": value, "client": cl}),
            st.fixed_dictionaries({"op": st.just("set"), "key": key, "value": value, "client": cl}),
            st.fixed_dictionaries({"op": st.just("get"), "key": key, "client": cl}),
            st.fixed_dictionaries({"op": st.just("getdefault"), "key": key, "client": cl}),
            st.fixed_dictionaries({"op": st.just("cached"), "key": key, "client": cl}),
            st.fixed_dictionaries({"op": st.just("cached"), "key": key, "client": cl}),
            st.fixed_dictionaries({"op": st.just("delete"), "key": key, "client": cl}),
            st.fixed_dictionaries({"op": st.just("contains"), "key": key, "client": cl}),
            st.fixed_dictionaries({"op": st.just("iterate"), "client": cl}),
            st.fixed_dictionaries({"op": st.just("len"), "client": cl}),
            st.fixed_dictionaries({"op": st.just("reopen"), "client": cl}),
        ]
        if is_list:
            o += [st.fixed_dictionaries({"op": st.just("append"), "key": key, "value": st.sampled_from(VALUES), "client": cl})] * 2
        else:
            o += [st.fixed_dictionaries({"op": st.just("nested"), "key": key, "field": st.sampled_from(FIELDS), "value": st.sampled_from(VALUES), "client": cl})] * 2
            o += [st.fixed_dictionaries({"op": st.just("rmw"), "key": key, "field": st.sampled_from(FIELDS), "value": st.sampled_from(VALUES), "client": cl})]
        if not is_list or True:
            o += [st.fixed_dictionaries({"op": st.just("reset_equal"), "key": key, "client": cl})]
        if is_redis:
            o += [st.fixed_dictionaries({"op": st.just("copy"), "key": key, "src": key, "client": cl})] * 2
            o += [st.fixed_dictionaries({"op": st.just("deliver"), "n": st.sampled_from([None, None, 1, 2])})] * 2
            o += [st.fixed_dictionaries({"op": st.just("ttl"), "key": key, "seconds": st.sampled_from([5, 60, 86400]), "client": cl}),
                  st.fixed_dictionaries({"op": st.just("advance"), "seconds": st.sampled_from([1, 4, 6, 100])})]
        if kind == "json":
            o += [st.fixed_dictionaries({"op": st.just("corrupt"), "text": st.sampled_from(["", "{bad", "[1, 2", "\x00\x01", "nul", "null", "[1, 2]", "5", '"text"', "true"])})]
        return st.lists(st.one_of(*o), min_size=3, max_size=30)

    def scenario(kind, nclients, auto=False):
        return ops_for(kind, nclients).map(lambda ops: dict({"kind": kind, "clients": nclients, "ops": ops}, **({"auto_deliver": True} if auto else {})))
    # persistence of the file store: whatever was written last (also by writing back the object the store handed out, or an equal value after in-memory
    # nested updates) is there after the file is opened again
    @st.composite
    def json_persist(draw):
        k = draw(key)
        ops = draw(st.lists(st.one_of(*[x for x in [st.fixed_dictionaries({"op": st.just("set"), "key": key, "value": st.sampled_from(DICTS), "client": st.just(0)}),
                                                    st.fixed_dictionaries({"op": st.just("delete"), "key": key, "client": st.just(0)})]]), max_size=3))
        ops.append({"op": "set", "key": k, "value": draw(st.sampled_from(DICTS[:5])), "client": 0})
        for _ in range(draw(st.integers(0, 2))):
            ops.append({"op": "nested", "key": k, "field": draw(st.sampled_from(FIELDS)), "value": draw(st.sampled_from(VALUES)), "client": 0})
        last = draw(st.sampled_from(["rmw", "reset_equal", "rmw+reset_equal"]))
        if "rmw" in last:
            ops.append({"op": "rmw", "key": k, "field": draw(st.sampled_from(FIELDS)), "value": draw(st.sampled_from(VALUES)), "client": 0})
        if "reset_equal" in last:
            ops.append({"op": "reset_equal", "key": k, "client": 0})
        ops += [{"op": "reopen", "client": 0}, {"op": "get", "key": k, "client": 0}]
        return {"kind": "json", "clients": 1, "ops": ops}
    return st.one_of(scenario("json", 1), json_persist(), scenario("memory", 1), scenario("redis-dict", 1), scenario("redis-dict", 2), scenario("redis-dict", 2), scenario("redis-list", 1), scenario("redis-list", 2),
                     scenario("redis-dict", 2, auto=True), scenario("redis-list", 2, auto=True))


def flush_scenarios():
    """The server announces a flush with a null key list: a small fixed family (the generator above never flushes)."""
    out = []
    for kind in ("redis-dict", "redis-list"):
        v = [1] if kind == "redis-list" else {"a": 1}
        out.append({"kind": kind, "clients": 1, "ops": [{"op": "set", "key": "k1", "value": v, "client": 0}, {"op": "cached", "key": "k1", "client": 0}, {"op": "flush"},
                                                          {"op": "deliver", "n": None}, {"op": "cached", "key": "k1", "client": 0}, {"op": "set", "key": "k1", "value": v, "client": 0},
                                                          {"op": "deliver", "n": None}, {"op": "cached", "key": "k1", "client": 0}]})
    return out


def nontrivial(sc):
    ops = sc["ops"]
    wrote = {}
    for i, o in enumerate(ops):
        if o["op"] in ("set", "nested", "append", "rmw", "reset_equal", "copy"):
            wrote[o["key"]] = (i, o.get("client", 0))
        if o["op"] in ("get", "getdefault", "cached", "contains") and o["key"] in wrote:
            wi, wc = wrote[o["key"]]
            if o["op"] == "cached" or o.get("client", 0) != wc or any(x["op"] in ("reopen", "corrupt") for x in ops[wi:i]):
                return True
    return False


def classes(sc):
    c = {"kind-" + sc["kind"], "clients-%d" % sc.get("clients", 1), "invalidations-" + ("processed-at-once" if sc.get("auto_deliver") else "delivered-by-schedule")}
    for o in sc["ops"]:
        c.add("op-" + o["op"])
    return sorted(c)


def shard(k, seed, tier, examples=100):
    import hypothesis
    from hypothesis import given, settings, HealthCheck, Phase
    camp = Campaign(PID, rule=RULE, tier=tier, seed=seed)

    @hypothesis.seed(seed)
    @settings(max_examples=examples, deadline=None, database=None, suppress_health_check=list(HealthCheck), phases=[Phase.generate])
    @given(strategies())
    def run(sc):
        one(camp, sc)
    run()
    if k == 0:
        for sc in flush_scenarios():
            one(camp, sc)
    return camp.export()


def one(camp, sc):
    try:
        fails = run_sequence(sc)
    except HarnessError as e:
        camp.harness_error("%s in %s" % (e, json.dumps(sc)[:500]))
        return
    except Exception as e:
        camp.harness_error("sequence %s crashed: %r %s" % (json.dumps(sc)[:500], e, traceback.format_exc()[-900:]))
        return
    camp.case(sc, nontrivial=bool(nontrivial(sc)), classes=classes(sc))
    for b, d in fails:
        camp.fail(b, sc, d)


def replay_case(case):
    return run_sequence(case)


def main(tier, seed, replay=None):
    camp = Campaign(PID, rule=RULE, tier=tier, seed=seed)
    camp.assumptions = [
        "Redis and pottery are the stand-ins of lsfverif/fakes (RESP2 client tracking in REDIRECT mode, one invalidation per tracked key per change, hashes/lists with JSON-encoded members, lazy expiry on a settable clock); "
        "their fidelity to the real servers/libraries is an assumption of this check",
        "Redis cannot hold an empty hash or list (documented in store.py): an empty value and an absent key are treated as the same thing for the Redis stores",
        "while invalidations are pending a cached view may return any value the key has held; once all are delivered it must return the current one",
        "JSONStore: only top-level assignments are written through to the file (nested mutations of a returned dict change the in-memory copy only), so persistence across reopen is asserted for them via the model only when "
        "the last write of the key was an assignment; an unreadable file must yield an empty store",
        "two clients = two store instances with their own connections (what two engine processes have); within a process all stores share one connection",
    ]
    if replay:
        with open(replay) as fp:
            rec = json.load(fp)
        for b, d in replay_case(rec["case"]):
            camp.fail(b, rec["case"], d)
        camp.case(rec["case"], True)
        camp.min_nontrivial = 0
        camp.write_evidence = False
        return camp.finish()
    camp.run_witnesses(replay_case)
    if tier == "thorough":
        run_shards(camp, __name__, "shard", 16, examples=3000)
    else:
        run_shards(camp, __name__, "shard", 8, examples=400)
    return camp.finish()
