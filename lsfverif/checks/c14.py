"""
C14 - Choice rules compare by type and combine like Boolean logic.

Every case is a one-Choice machine with marker Pass states, executed by the real
engine stack; which marker is reached is compared with lsfverif.ref.choice.
Exhaustive operator x variable x constant table + generated Boolean trees,
rule lists (first match wins), StringMatches patterns, InputPath + *Path operands.
"""
import copy, itertools, json, traceback

from .. import env
from ..runner import Campaign, HarnessError, run_shards
from ..ref import choice as rc

PID = "C14"
RULE = ("cases = (Choice state, input) pairs run as one-Choice machines through the engine. Table part: all 39 operators x 22 variable values "
        "(missing, null, booleans, numbers, strings incl. wildcard text, timestamps in three notations, non-timestamp text, [], {}, nested) x typed constants, "
        "literal and *Path form (existing / wrong-typed / missing reference). Generated part: And/Or/Not trees over those atoms, ordered rule lists with and "
        "without Default, StringMatches patterns over {letters * \\* ? [ ] .}, InputPath != '$' with *Path operands. Non-trivial = wrong-typed or missing "
        "operand, or a Boolean tree of depth >= 2, or >= 2 rules. Distinct by canonical JSON of (state, input).")

TS1 = "2016-03-14T01:59:00Z"
TS1B = "2016-03-13T20:59:00-05:00"       # same instant as TS1
TS1C = "2016-03-14T07:29:00+05:30"       # same instant, minute offset
TS1D = "2016-03-13T22:29:00-03:30"       # same instant, negative minute offset
TS2 = "2016-03-14T02:00:00.5Z"           # later instant
TS1E = "2016-03-14T01:59:00.000Z"        # same instant as TS1, other number of fractional digits (as text it sorts after TS1)
TS1F = "2016-03-14T01:59:00.5Z"          # half a second after TS1 (as text it sorts before TS1: '.' < 'Z')
MISSING = "<missing>"
VARIABLES = [MISSING, None, True, False, 0, 1, -1, 1.5, "", "a", "b", "A", "a*", TS1, TS1B, TS1C, TS1D, TS1E, TS1F, TS2, "not-a-timestamp", [], {}, {"x": 1},
             # near misses of the timestamp grammar: strings, not timestamps
             "2016-03-14T01:59:00x01:00", "2016-03-14T01:59:00+0100", "2016-03-14T01:59:00+01:60", "2016-03-14T01:59:00+01-00", "2016-03-14T1:59:00Z", "2016-03-14T01:59:00", "2016-13-14T01:59:00Z"]
STR_CONSTS = ["", "a", "b", "A", "a*", TS1]
NUM_CONSTS = [0, 1, -1, 1.5, 2]
BOOL_CONSTS = [True, False]
TS_CONSTS = [TS1, TS1B, TS1C, TS1D, TS1E, TS1F, TS2]
REF_VALUES = [True, False, 0, 1, 1.5, "", "a", "A", TS1, TS1C, TS1D, TS1E, TS1F, TS2, None, [], MISSING]

_world = None
_world_uses = 0
_seq = 0


def get_world():
    """One World is reused for many one-Choice machines (the machine is replaced through UpdateStateMachine)."""
    global _world, _world_uses
    from .. import world as W
    if _world is None or _world_uses >= 400:
        if _world is not None:
            _world.close()
        _world = W.World(seed=14, tick=0.0)
        _world.add_engine("A")
        st, r = _world.create_state_machine("c", {"StartAt": "X", "States": {"X": {"Type": "Succeed"}}}, type_="EXPRESS")
        if st != 200:
            raise HarnessError("cannot create the carrier machine: %r" % (r,))
        _world_uses = 0
    _world_uses += 1
    return _world


def run_choice(state, data):
    """-> ("next", marker) | ("error", name) | ("none", None)"""
    global _seq
    from .. import world as W
    w = get_world()
    targets = sorted({r["Next"] for r in state.get("Choices", [])} | ({state["Default"]} if "Default" in state else set()))
    states = {"C": state}
    for t in targets:
        states[t] = {"Type": "Pass", "Result": t, "End": True}
    definition = {"StartAt": "C", "States": states}
    st, r = w.engine().api("UpdateStateMachine", {"stateMachineArn": W.sm_arn("c"), "definition": json.dumps(definition)})
    if st != 200:
        raise HarnessError("UpdateStateMachine refused a generated Choice machine: %r" % (r,))
    _seq += 1
    n0 = len(w.notifications)
    st, r = w.start_execution(W.sm_arn("c"), data, name="x%d" % _seq)
    if st != 200:
        raise HarnessError("StartExecution refused: %r" % (r,))
    w.run()
    term = w.terminal(r["executionArn"])
    del w.notifications[:]
    if w.broker.total_unacked() or w.broker.queue_depths():
        raise HarnessError("choice execution left messages behind")
    if term is None:
        return ("none", None)
    if term["status"] == "SUCCEEDED":
        return ("next", json.loads(term["output"]))
    return ("error", term.get("error"))


def expected_of(state, data):
    eff = data
    ip = state.get("InputPath", "$")
    if ip != "$":
        from ..ref import paths as rp
        eff = rp.read(data, rp.parse(ip))
    return rc.choose(state, eff, {})


def check_case(state, data, tag):
    exp = expected_of(state, data)
    if exp[0] == "unspec":
        return [], "unspecified"
    got = run_choice(state, data)
    fails = []
    if exp[0] == "next":
        if got != ("next", exp[1]):
            fails.append(("%s:%s" % ("false-negative" if exp[1].startswith("M") else "false-positive", tag),
                          "state %s input %s: engine -> %r, reference -> %r" % (json.dumps(state), json.dumps(data), got, exp)))
    else:
        if got != ("error", "States.NoChoiceMatched"):
            fails.append(("no-choice-matched:%s" % tag, "state %s input %s: engine -> %r, reference -> NoChoiceMatched" % (json.dumps(state), json.dumps(data), got)))
    return fails, None


def atom_tag(op, var, const_or_ref, path_form):
    v = "missing" if var == MISSING else rc_kind(var)
    return "%s%s:var-%s" % (op, "Path" if path_form else "", v)


def rc_kind(v):
    if v is None:
        return "null"
    if isinstance(v, bool):
        return "boolean"
    if isinstance(v, (int, float)):
        return "number"
    if isinstance(v, str):
        if rc.timefmt.is_timestamp(v):
            return "timestamp"
        return "string"
    return "array" if isinstance(v, list) else "object"


def table_cases():
    """Yield (state, data, tag, nontrivial)."""
    def mk(rule, var, extra=None):
        data = {} if var == MISSING else {"v": copy.deepcopy(var)}
        if extra:
            data.update(extra)
        r = dict(rule)
        r["Variable"] = "$.v"
        r["Next"] = "M"
        return {"Type": "Choice", "Choices": [r], "Default": "D"}, data

    def right_typed(op):
        if op in rc.STRING_OPS or op == "StringMatches":
            return STR_CONSTS
        if op in rc.NUMERIC_OPS:
            return NUM_CONSTS
        if op == "BooleanEquals":
            return BOOL_CONSTS
        return TS_CONSTS

    for op in rc.VALUE_OPS:
        for var in VARIABLES:
            for c in right_typed(op):
                st, data = mk({op: c}, var)
                wrong = var == MISSING or rc.compare(op, var, c) is False and not _same_family(op, var)
                yield st, data, atom_tag(op, var, c, False), bool(wrong)
    for op in rc.VALUE_OPS:
        if op == "StringMatches":
            continue
        for var in VARIABLES:
            for ref in REF_VALUES:
                extra = {} if ref == MISSING else {"ref": copy.deepcopy(ref)}
                st, data = mk({op + "Path": "$.ref"}, var, extra)
                yield st, data, atom_tag(op, var, ref, True), True
    for op in rc.IS_OPS:
        for var in VARIABLES:
            for c in (True, False):
                st, data = mk({op: c}, var)
                yield st, data, atom_tag(op, var, c, False), var == MISSING
    # StringMatches: every pattern of length <= 3 over {a * ? [ ] .} plus the escaped star, against a value set
    values = ["", "a", "b", "ab", "a?", "?", "[a]", "[", "]", "a.b", "aXb", "*", "a*", "A", "a\nb", "a\n", "\n", "ab\n", "a\\", "a\\b", "\\", "a\\*"]
    pats = []
    for n in (1, 2, 3):
        pats += ["".join(p) for p in itertools.product("a*?[].", repeat=n)]
    pats += ["\\*", "a\\*", "\\*a", "*\\*", "\\**"]
    pats += ["\\\\", "\\\\*", "a\\\\*", "a\\\\", "*\\\\", "a*\n", "*\n*"]       # an escaped backslash (followed by a wildcard), patterns with a line break
    for pat in pats:
        for v in values:
            st, data = mk({"StringMatches": pat}, v)
            yield st, data, "StringMatches:pattern-" + ("meta" if any(c in pat for c in "?[].") else "star"), any(c in pat for c in "?[].\\")


def _same_family(op, var):
    if op in rc.STRING_OPS or op == "StringMatches":
        return isinstance(var, str)
    if op in rc.NUMERIC_OPS:
        return rc.is_number(var)
    if op == "BooleanEquals":
        return isinstance(var, bool)
    return isinstance(var, str) and rc.timefmt.is_timestamp(var)


def table_shard(k, seed, tier, nshards=1):
    camp = Campaign(PID, rule=RULE, tier=tier, seed=seed)
    n = 0
    for i, (state, data, tag, nt) in enumerate(table_cases()):
        if i % nshards != k:
            continue
        try:
            fails, skipped = check_case(state, data, tag)
        except HarnessError as e:
            camp.harness_error(e)
            break
        case = {"state": state, "input": data}
        if skipped:
            camp.count("skipped-unspecified")
            continue
        camp.case(case, nontrivial=nt, classes=["table", "op:" + tag.split(":")[0]])
        for b, d in fails:
            camp.fail(b, case, d)
        n += 1
    camp.extra["table_cases"] = n
    return camp.export()


def tree_shard(k, seed, tier, examples=300):
    import hypothesis
    from hypothesis import given, settings, HealthCheck, Phase, strategies as st
    camp = Campaign(PID, rule=RULE, tier=tier, seed=seed)
    depth = 4 if tier == "thorough" else 2

    doc = {"b": True, "f": False, "n": 1, "z": 0, "x": 1.5, "s": "a", "e": "", "S": "A", "t": TS1, "t2": TS2, "tm": TS1C, "tn": TS1D, "nul": None,
           "arr": [], "o": {"k": 2}}
    var_paths = ["$.b", "$.f", "$.n", "$.z", "$.x", "$.s", "$.e", "$.S", "$.t", "$.t2", "$.tm", "$.tn", "$.nul", "$.arr", "$.o.k", "$.zz"]

    shared_var = [None]

    @st.composite
    def atom(draw):
        op = draw(st.sampled_from(rc.ALL_OPS + list(rc.IS_OPS) * 2)) if shared_var[0] else draw(st.sampled_from(rc.ALL_OPS))
        var = shared_var[0] or draw(st.sampled_from(var_paths))
        r = {"Variable": var}
        base = op[:-4] if op.endswith("Path") and op[:-4] in rc.VALUE_OPS else op
        if op in rc.IS_OPS:
            r[op] = draw(st.booleans())
        elif op.endswith("Path") and base in rc.VALUE_OPS:
            r[op] = draw(st.sampled_from(var_paths))
        elif base in rc.STRING_OPS:
            r[op] = draw(st.sampled_from(STR_CONSTS + ["B"]))
        elif base == "StringMatches":
            r[op] = draw(st.text(alphabet="aA*?[].b", max_size=4).map(lambda s: s) | st.sampled_from(["a\\*", "\\*", "*\\**", "a*"]))
        elif base in rc.NUMERIC_OPS:
            r[op] = draw(st.sampled_from(NUM_CONSTS))
        elif base == "BooleanEquals":
            r[op] = draw(st.booleans())
        else:
            r[op] = draw(st.sampled_from(TS_CONSTS))
        return r

    def tree(d):
        if d == 0:
            return atom()
        sub = st.deferred(lambda: tree(d - 1))
        return st.one_of(atom(), st.lists(sub, min_size=1, max_size=3).map(lambda xs: {"And": xs}),
                         st.lists(sub, min_size=1, max_size=3).map(lambda xs: {"Or": xs}), sub.map(lambda x: {"Not": x}))

    def tdepth(r):
        if "And" in r:
            return 1 + max(tdepth(x) for x in r["And"])
        if "Or" in r:
            return 1 + max(tdepth(x) for x in r["Or"])
        if "Not" in r:
            return 1 + tdepth(r["Not"])
        return 0

    @st.composite
    def states(draw):
        # a third of the cases put every atom on the same Variable (often a missing one): repeated look-ups of one path
        shared_var[0] = draw(st.sampled_from([None, None, None, None, "$.zz", "$.zz", "$.nul", "$.n", "$.t"]))
        n = draw(st.integers(2, 3)) if shared_var[0] else draw(st.integers(1, 3))
        choices = []
        for i in range(n):
            r = dict(draw(tree(depth)))
            r["Next"] = "M%d" % i
            choices.append(r)
        s = {"Type": "Choice", "Choices": choices}
        if draw(st.integers(0, 3)) > 0:
            s["Default"] = "D"
        kind = draw(st.sampled_from(["plain", "plain", "plain", "inputpath"]))
        data = copy.deepcopy(doc)
        if kind == "inputpath":
            s["InputPath"] = "$.in"
            data = {"in": copy.deepcopy(doc), "n": 99, "s": "OUTER", "b": False}
        return s, data, kind

    @hypothesis.seed(seed)
    @settings(max_examples=examples, deadline=None, database=None, suppress_health_check=list(HealthCheck), phases=[Phase.generate])
    @given(states())
    def run(c):
        s, data, kind = c
        tag = "tree"
        if kind == "inputpath":
            tag = "inputpath" + ("+PathOperand" if "Path\"" in json.dumps(s).replace("InputPath\"", "") else "")
        if "StringMatches" in json.dumps(s):
            tag += "+StringMatches"
        try:
            fails, skipped = check_case(s, data, tag)
        except HarnessError as e:
            camp.harness_error(e)
            return
        except Exception as e:
            camp.harness_error("crash on %s: %r %s" % (json.dumps(s), e, traceback.format_exc()[-600:]))
            return
        case = {"state": s, "input": data}
        if skipped:
            camp.count("skipped-unspecified")
            return
        d = max(tdepth({k: v for k, v in r.items() if k != "Next"}) for r in s["Choices"])
        same = len(set(__import__("re").findall(r'"Variable": "([^"]+)"', json.dumps(s)))) == 1 and json.dumps(s).count('"Variable"') >= 2
        camp.case(case, nontrivial=(d >= 2 or len(s["Choices"]) >= 2), classes=["tree", "depth-%d" % min(d, 4), "rules-%d" % len(s["Choices"]), kind] + (["same-variable-repeated"] if same else []))
        for b, dd in fails:
            camp.fail(b, case, dd)

    run()
    return camp.export()


def replay_case(case):
    return check_case(case["state"], case["input"], case.get("tag", "replay"))[0]


def calibrate():
    from ..ref import timefmt
    import datetime
    for s in (TS1, TS1B, TS1C, TS2, "2020-02-29T23:59:59.999999+23:59", "1970-01-01T00:00:00-00:01"):
        want = datetime.datetime.fromisoformat(s.replace("Z", "+00:00")).timestamp()
        if abs(timefmt.parse_us(s) / 1e6 - want) > 1e-6:
            raise HarnessError("ref.timefmt calibration failed on %s" % s)
    if len({timefmt.parse_us(x) for x in (TS1, TS1B, TS1C, TS1D)}) != 1:
        raise HarnessError("timestamp alphabet is wrong")
    # the repo's own test expectations (test_choice_state.py), one per operator family
    T = rc.compare
    checks = [T("StringEquals", "a", "a") is True, T("StringLessThan", "A", "a") is True, T("NumericEquals", 1, 1.0) is True,
              T("NumericGreaterThan", 1, True) is False, T("BooleanEquals", False, False) is True, T("BooleanEquals", rc.MISSING, False) is False,
              T("TimestampEquals", TS1, TS1B) is True, T("TimestampLessThan", TS1, TS2) is True, T("StringMatches", "foo23.log", "foo*.log") is True,
              T("StringMatches", "foo*.log", "foo\\*.log") is True, T("StringMatches", "fooX.log", "foo\\*.log") is False,
              T("StringMatches", "ab", "a?") is False, T("IsNull", None, True) is True, T("IsPresent", rc.MISSING, False) is True,
              T("IsTimestamp", TS1, True) is True, T("IsTimestamp", "x", True) is False, T("IsNumeric", True, True) is False]
    if not all(checks):
        raise HarnessError("ref.choice calibration failed: %r" % checks)


def main(tier, seed, replay=None):
    camp = Campaign(PID, rule=RULE, tier=tier, seed=seed)
    camp.assumptions = [
        "Is* tests other than IsPresent are not asserted on a missing Variable; a *Path operand that resolves to nothing is not asserted",
        "StringMatches patterns contain no backslash other than \\*; constants in literal rules are of the operator's type",
        "CaseInsensitiveStringEquals (a repo extension) is outside the 39 operators and not generated",
    ]
    try:
        calibrate()
    except HarnessError as e:
        camp.harness_error(e)
        return camp.finish()
    if replay:
        with open(replay) as fp:
            rec = json.load(fp)
        for b, d in replay_case(rec["case"]):
            camp.fail(b, rec["case"], d)
        camp.case(rec["case"], True)
        camp.min_nontrivial = 0
        camp.write_evidence = False
        return camp.finish()
    camp.run_witnesses(replay_case)
    global _world
    if _world is not None:
        _world.close()
        _world = None
    if tier == "thorough":
        run_shards(camp, __name__, "table_shard", 16, nshards=16)
        run_shards(camp, __name__, "tree_shard", 16, examples=5000)
    else:
        run_shards(camp, __name__, "table_shard", 8, nshards=8)
        run_shards(camp, __name__, "tree_shard", 8, examples=150)
    camp.extra["exhaustive_subdomain"] = "the operator x variable x constant table (literal and *Path form) is enumerated completely in both tiers"
    return camp.finish()
