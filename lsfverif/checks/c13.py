"""
C13 - payload templates and intrinsic functions evaluate as specified, fail cleanly.

(1) differential vs lsfverif.ref.template for generated well-formed expressions
(2) template / input / context left unmodified
(3) ill-formed => IntrinsicFailure (bad paths => a path failure), never another
    exception type; through a Pass state: States.IntrinsicFailure / States.Runtime
(4) canary: nothing reachable from an expression may import/run interpreter code
(5) results do not depend on PYTHONHASHSEED (two sub-processes, different seeds)
"""
import copy, json, os, subprocess, sys, traceback

from .. import env
from ..runner import Campaign, HarnessError, run_shards, canon
from ..ref import template as rt

PID = "C13"
RULE = ("cases = intrinsic expressions generated from the function grammar (every function of Appendix B, arguments of every JSON type, "
        "paths into a fixed typed document and the context, nested calls up to depth 3, strings over letters plus , ' \\ ( ) [ ] ^ and space, "
        "Format templates with placeholders and escaped braces), ill-formed variants (arity, types, unknown names incl. names of Python locals, "
        "unbalanced quotes/parentheses, bad tokens, missing paths), and payload templates of depth <= 2 mixing literal and '.$' members. "
        "Non-trivial = the expression has a string argument containing a metacharacter, or a nested call, or the template has >= 2 members. "
        "Distinct by expression/template text.")

_mod = None


def repo():
    global _mod
    if _mod is None:
        env.setup_paths(fakes=False)
        import asl_workflow_engine.state_engine_paths as m
        import asl_workflow_engine.asl_exceptions as ex
        _mod = (m, ex)
    return _mod


class Canary:
    hits = 0


def install_canary():
    import types
    mod = types.ModuleType("verif_canary")

    def hit(*a, **k):
        Canary.hits += 1
        return True
    mod.hit = hit
    sys.modules["verif_canary"] = mod


def run_repo(expr, data, ctx):
    """-> ("value", v) | ("intrinsic-failure", msg) | ("path-failure", msg) | ("exception", TypeName, msg)"""
    m, ex = repo()
    try:
        out = m.evaluate_payload_template(data, ctx, {"r.$": expr})
        if not isinstance(out, dict) or "r" not in out:
            return ("value-shape", out)
        return ("value", out["r"])
    except ex.IntrinsicFailure as e:
        return ("intrinsic-failure", str(e))
    except (ex.PathMatchFailure, ex.ParameterPathFailure) as e:
        return ("path-failure", str(e))
    except Exception as e:
        return ("exception", type(e).__name__, str(e)[:200])


def run_ref(expr, data, ctx):
    try:
        return ("value", rt.evaluate_intrinsic(expr, data, ctx))
    except rt.IntrinsicFailure as e:
        return ("intrinsic-failure", str(e))
    except rt.PathFailure as e:
        return ("path-failure", str(e))
    except rt.Unspecified as e:
        return ("unspecified", str(e))


def outer_function(expr):
    return expr.split("(", 1)[0].strip()[:40]


def cause_tag(feats, fn):
    """Primary input class of a case, in priority order.  The argument tokeniser (finding C13-F10) is
    sensitive to the first four classes; everything else is 'plain:<function>'."""
    feats = set(feats)
    for f in sorted(feats):
        if f.startswith("ill-formed-"):
            return "ill:" + f[len("ill-formed-"):]
    if "nesting>=2" in feats:
        return "nesting>=2"
    if any(f.startswith("nested-str-") and f.split("nested-str-")[1] in ("paren", "comma", "apostrophe", "backslash") for f in feats):
        return "nested-str-meta"
    if "str-apostrophe" in feats or "str-backslash" in feats:
        return "str-escape"
    return "plain:" + fn


def check_expr(expr, feats=(), data=None, ctx=None):
    """-> (fails, skipped_reason)"""
    from ..gen import intrinsics as gi
    data = copy.deepcopy(gi.BASE_INPUT) if data is None else data
    ctx = copy.deepcopy(gi.BASE_CONTEXT) if ctx is None else ctx
    d0, c0 = copy.deepcopy(data), copy.deepcopy(ctx)
    exp = run_ref(expr, copy.deepcopy(data), copy.deepcopy(ctx))
    before = Canary.hits
    got = run_repo(expr, data, ctx)
    fails = []
    fn = outer_function(expr)
    ftag = cause_tag(feats, fn)
    if Canary.hits != before:
        fails.append(("canary-executed:%s" % fn, "evaluating %r ran interpreter code" % expr))
    if data != d0 or ctx != c0:
        fails.append(("mutates-input-or-context:%s" % fn, "evaluating %r changed input/context" % expr))
    if got[0] == "exception":
        fails.append(("exception-type:%s:%s" % (got[1], ftag), "%r raised %s: %s (reference: %r)" % (expr, got[1], got[2], exp[:2])))
        return fails, None
    if "States.UUID" in expr and got[0] == "value":
        # a version 4 UUID is drawn afresh on every evaluation, wherever the call is nested: the same expression evaluated again in the same process gives another value
        again = run_repo(expr, copy.deepcopy(d0), copy.deepcopy(c0))
        if again[0] == "value" and again[1] == got[1] and _has_uuid(got[1]):
            fails.append(("uuid-repeats-across-evaluations:%s" % ftag, "%r gave %s twice" % (expr, _show(got[1]))))
    if exp[0] == "unspecified":
        return fails, exp[1]
    if exp[0] == "value":
        marker = exp[1]
        if isinstance(marker, rt.Marker) and marker.kind == "either-failure-or" and got[0] == "intrinsic-failure":
            return fails, None
        if got[0] != "value":
            fails.append(("spurious-%s:%s" % (got[0], ftag), "%r -> %s %r; reference value %r" % (expr, got[0], got[1][:150], _show(exp[1]))))
        elif not rt.tree_matches(got[1], exp[1]):
            fails.append(("wrong-value:%s" % ftag, "%r -> %s; reference %s" % (expr, _show(got[1]), _show(exp[1]))))
        elif _leaks_internals(got[1]):
            fails.append(("leaks-interpreter-object:%s" % fn, "%r -> %s" % (expr, _show(got[1]))))
    elif exp[0] == "intrinsic-failure":
        if got[0] == "value":
            fails.append(("missed-failure:%s" % ftag, "%r -> %s; reference: ill-formed (%s)" % (expr, _show(got[1]), exp[1])))
        elif got[0] != "intrinsic-failure":
            fails.append(("wrong-failure-kind:%s:%s" % (got[0], ftag), "%r -> %s; reference IntrinsicFailure" % (expr, got[0])))
    elif exp[0] == "path-failure":
        if got[0] == "value":
            fails.append(("missed-path-failure:%s" % ftag, "%r -> %s; reference: path addresses nothing" % (expr, _show(got[1]))))
    return fails, None


def _has_uuid(v):
    import re
    return bool(re.search(r"[0-9a-f]{8}-[0-9a-f]{4}-[0-9a-f]{4}-[0-9a-f]{4}-[0-9a-f]{12}", json.dumps(v, default=repr)))


def _leaks_internals(v):
    s = json.dumps(v, default=repr) if not isinstance(v, str) else v
    return "<class " in s or "<built-in" in s or "<function" in s or "<module" in s


def _show(v):
    if isinstance(v, rt.Marker):
        return "<%s %s>" % (v.kind, {k: x for k, x in v.__dict__.items() if k != "kind"})
    try:
        return json.dumps(v)[:200]
    except Exception:
        return repr(v)[:200]


def check_template(tpl, data=None, ctx=None):
    from ..gen import intrinsics as gi
    m, ex = repo()
    data = copy.deepcopy(gi.BASE_INPUT) if data is None else data
    ctx = copy.deepcopy(gi.BASE_CONTEXT) if ctx is None else ctx
    t0, d0, c0 = copy.deepcopy(tpl), copy.deepcopy(data), copy.deepcopy(ctx)
    try:
        exp = ("value", rt.evaluate_template(copy.deepcopy(tpl), copy.deepcopy(data), copy.deepcopy(ctx)))
    except rt.IntrinsicFailure:
        exp = ("intrinsic-failure",)
    except rt.PathFailure:
        exp = ("path-failure",)
    except rt.Unspecified as e:
        exp = ("unspecified", str(e))
    try:
        got = ("value", m.evaluate_payload_template(data, ctx, tpl))
    except ex.IntrinsicFailure:
        got = ("intrinsic-failure",)
    except (ex.PathMatchFailure, ex.ParameterPathFailure):
        got = ("path-failure",)
    except Exception as e:
        got = ("exception", type(e).__name__, str(e)[:200])
    fails = []
    if tpl != t0 or data != d0 or ctx != c0:
        fails.append(("template-mutates", "template/input/context modified by evaluation of %s" % json.dumps(t0)))
    if got[0] == "exception":
        fails.append(("template-exception-type:%s" % got[1], "%s raised %s: %s" % (json.dumps(t0), got[1], got[2])))
        return fails, None
    if exp[0] == "unspecified":
        return fails, exp[1]
    if got[0] == "value":
        # the payload must not share structure with the template / input / context: scribbling over it leaves them intact
        # (values selected by a path are references into the input/context by design; only the template - the
        #  cached state machine definition, shared by every execution - must never be reachable from the payload)
        _scribble(got[1])
        if tpl != t0:
            fails.append(("template-aliases-output", "modifying the payload produced from %s changed the template itself" % json.dumps(t0)))
        tpl, data, ctx = copy.deepcopy(t0), copy.deepcopy(d0), copy.deepcopy(c0)
        got = ("value", m.evaluate_payload_template(data, ctx, tpl))
    if exp[0] != got[0]:
        # several failing members: either failure kind is acceptable
        if not (exp[0] in ("intrinsic-failure", "path-failure") and got[0] in ("intrinsic-failure", "path-failure")):
            fails.append(("template-outcome:%s-expected-%s" % (got[0], exp[0]), "%s -> %r expected %r" % (json.dumps(t0), got[:1], exp[:1])))
    elif exp[0] == "value" and not rt.tree_matches(got[1], exp[1]):
        fails.append(("template-wrong-value", "%s -> %s expected %s" % (json.dumps(t0), _show(got[1]), _show(exp[1]))))
    return fails, None


def _scribble(v):
    if isinstance(v, dict):
        for x in list(v.values()):
            _scribble(x)
        v["__scribble__"] = 1
    elif isinstance(v, list):
        for x in v:
            _scribble(x)
        v.append("__scribble__")


CANARY_PROBES = [
    ("States.Format('{0.__class__}', 'x')", "format-attribute-access"),
    ("States.Format('{0.__class__.__mro__}', $.obj)", "format-attribute-access"),
    ("States.Format('{0[k]}', $.obj)", "format-index-access"),
    ("States.Format('{!r}', 'x')", "format-conversion"),
    ("States.Format('{:>10}', 'x')", "format-spec"),
    ("States.Array($[?(__import__('verif_canary').hit())])", "jsonpath-filter-eval"),
    ("States.Array($.arr[(__import__('verif_canary').hit())])", "jsonpath-index-eval"),
    ("States.ArrayLength($.arr[?(@.__class__)])", "jsonpath-filter-eval"),
    ("States.JsonToString($..[?(__import__('verif_canary').hit())])", "jsonpath-filter-eval"),
]


def check_canary(expr, tag):
    """Interpreter internals must be unreachable: the canary module must not be touched and no
    interpreter object repr may come back.  (Whether the call fails or returns is not asserted.)"""
    from ..gen import intrinsics as gi
    before = Canary.hits
    got = run_repo(expr, copy.deepcopy(gi.BASE_INPUT), copy.deepcopy(gi.BASE_CONTEXT))
    fails = []
    if Canary.hits != before:
        fails.append(("canary-executed:%s" % tag, "evaluating %r executed code smuggled through a path expression" % expr))
    if got[0] == "value" and _leaks_internals(got[1]):
        fails.append(("leaks-interpreter-object:%s" % tag, "%r -> %s" % (expr, _show(got[1]))))
    if got[0] == "value" and tag.startswith("format-") and tag != "format-attribute-access":
        fails.append(("format-python-minilanguage:%s" % tag, "%r -> %s (Python format mini-language honoured)" % (expr, _show(got[1]))))
    if got[0] == "exception":
        fails.append(("exception-type:%s:canary-%s" % (got[1], tag), "%r raised %s" % (expr, got[1])))
    return fails


def check_canary_path(path, tag):
    """Same for a plain '.$' path member and InputPath-style reads."""
    from ..gen import intrinsics as gi
    m, ex = repo()
    before = Canary.hits
    fails = []
    try:
        m.evaluate_payload_template(copy.deepcopy(gi.BASE_INPUT), copy.deepcopy(gi.BASE_CONTEXT), {"r.$": path})
    except Exception:
        pass
    if Canary.hits != before:
        fails.append(("canary-executed:%s" % tag, "template path %r executed smuggled code" % path))
    return fails


def replay_case(case):
    install_canary()
    env.cap_memory()
    k = case["kind"]
    if k == "expr":
        return check_expr(case["expr"], case.get("features", ()))[0]
    if k == "template":
        return check_template(case["template"])[0]
    if k == "canary":
        return check_canary(case["expr"], case["tag"])
    if k == "canary-path":
        return check_canary_path(case["path"], case["tag"])
    if k == "hashseed":
        return check_hashseed(case["exprs"])
    if k == "engine":
        return check_engine(case["expr"])
    if k == "map-selector":
        return check_map_selector(case)[0]
    raise HarnessError("unknown case kind %r" % k)


# -------------------------------------------------------- hash-seed metamorphic
def eval_for_hashseed(exprs):
    out = []
    for e in exprs:
        from ..gen import intrinsics as gi
        got = run_repo(e, copy.deepcopy(gi.BASE_INPUT), copy.deepcopy(gi.BASE_CONTEXT))
        out.append([got[0], got[1] if got[0] == "value" else None])
    return out


def check_hashseed(exprs):
    res = []
    for hs in ("1", "2", "77"):
        p = subprocess.run([sys.executable, "-c",
                            "import sys, json; sys.path.insert(0, %r); from lsfverif.checks import c13; "
                            "print(json.dumps(c13.eval_for_hashseed(json.load(sys.stdin)), sort_keys=True, default=repr))" % env.VERIF_ROOT],
                           input=json.dumps(exprs), capture_output=True, text=True,
                           env=dict(os.environ, PYTHONHASHSEED=hs, PYTHONDONTWRITEBYTECODE="1", LOG_LEVEL="CRITICAL"))
        if p.returncode != 0:
            raise HarnessError("hash-seed subprocess failed: %s" % p.stderr[-800:])
        res.append(json.loads(p.stdout.strip().splitlines()[-1]))
    fails = []
    for i, e in enumerate(exprs):
        vals = [canon(r[i]) for r in res]
        if len(set(vals)) > 1 and "States.UUID" not in e and "States.MathRandom" not in e:
            fails.append(("hash-seed-dependent:%s" % outer_function(e), "%r evaluates to %s under different PYTHONHASHSEED values" % (e, sorted(set(vals))[:3])))
    return fails


# -------------------------------------------------------------- engine slice
def check_engine(expr):
    """Through a one-state execution: ill-formed => States.IntrinsicFailure, bad path => States.Runtime
    (or the documented States.ParameterPathFailure), well-formed => SUCCEEDED with the value."""
    from .. import world as W
    from ..gen import intrinsics as gi
    exp = run_ref(expr, copy.deepcopy(gi.BASE_INPUT), {"Execution": {"Input": copy.deepcopy(gi.BASE_INPUT), "Name": "e"},
                                                         "State": {"Name": "P"}})
    if exp[0] == "unspecified":
        return []
    w = W.World(seed=5)
    try:
        w.add_engine("A")
        w.create_state_machine("m", {"StartAt": "P", "States": {"P": {"Type": "Pass", "Parameters": {"r.$": expr}, "End": True}}})
        st_, resp = w.start_execution(W.sm_arn("m"), gi.BASE_INPUT, name="e")
        w.run()
        term = w.terminal(resp["executionArn"])
    finally:
        w.close()
    fails = []
    if term is None:
        return [("engine-no-terminal", "Pass with %r never ended" % expr)]
    if exp[0] == "intrinsic-failure":
        if term["status"] != "FAILED" or term.get("error") != "States.IntrinsicFailure":
            fails.append(("engine-error-name:intrinsic", "Pass with %r ended %s/%s, expected FAILED/States.IntrinsicFailure" % (expr, term["status"], term.get("error"))))
    elif exp[0] == "path-failure":
        if term["status"] != "FAILED" or term.get("error") not in ("States.Runtime", "States.ParameterPathFailure"):
            fails.append(("engine-error-name:path", "Pass with %r ended %s/%s" % (expr, term["status"], term.get("error"))))
    else:
        if term["status"] != "SUCCEEDED":
            if not (isinstance(exp[1], rt.Marker) and exp[1].kind == "either-failure-or"):
                fails.append(("engine-status", "Pass with %r ended %s/%s, expected SUCCEEDED" % (expr, term["status"], term.get("error"))))
        elif not rt.tree_matches(json.loads(term["output"]), {"r": exp[1]}):
            fails.append(("engine-output", "Pass with %r output %s expected r=%s" % (expr, term["output"], _show(exp[1]))))
    return fails


SELECTOR_MEMBERS = [("name.$", "$$.State.Name"), ("idx.$", "$$.Map.Item.Index"), ("val.$", "$$.Map.Item.Value"), ("xname.$", "$$.Execution.Name"), ("inp.$", "$$.Execution.Input.n"),
                    ("fmt.$", "States.Format('{}#{}', $$.State.Name, $$.Map.Item.Index)"), ("arr.$", "States.Array($$.Map.Item.Value, $$.State.Name)"), ("n.$", "$.n"),
                    ("sum.$", "States.MathAdd($$.Map.Item.Index, $.n)"), ("lit", {"a": [1, None]}), ("nest", {"who.$": "$$.State.Name", "at.$": "$$.Map.Item.Index"}),
                    ("inc.$", "States.MathAdd($$.Map.Item.Value, 1)")]     # (fails for every item that is not an integer)


def check_map_selector(sc):
    """Through a Map state: the ItemSelector is evaluated once per item against the input and the context (the Map state's own $$.State, $$.Map.Item of that item), and the
    context is the same for every item of every MaxConcurrency block. sc: dict(members=[indices into SELECTOR_MEMBERS], items=[...], mc=int)"""
    from .. import world as W
    tpl = {}
    for i in sc["members"]:
        k_, v_ = SELECTOR_MEMBERS[i]
        tpl[k_] = copy.deepcopy(v_)
    data = {"n": 3, "items": sc["items"]}
    exp = []
    failing = None          # index of the first item whose selector cannot be evaluated: the Map state fails as a whole with States.IntrinsicFailure
    for idx, item in enumerate(sc["items"]):
        ctx = {"Execution": {"Input": copy.deepcopy(data), "Name": "e"}, "State": {"Name": "Fan"}, "Map": {"Item": {"Index": idx, "Value": copy.deepcopy(item)}}}
        try:
            exp.append(rt.evaluate_template(copy.deepcopy(tpl), copy.deepcopy(data), ctx))
        except rt.Unspecified:
            return [], True
        except rt.IntrinsicFailure:
            failing = idx
            break
        except rt.PathFailure:
            return [], True
    w = W.World(seed=5)
    try:
        w.add_engine("A")
        fan = {"Type": "Map", "ItemsPath": "$.items", "ItemSelector": tpl, "MaxConcurrency": sc["mc"], "End": True,
               "ItemProcessor": {"StartAt": "Worker", "States": {"Worker": {"Type": "Pass", "End": True}}}}
        states = {"Fan": fan}
        if sc.get("catch"):
            fan["Catch"] = [{"ErrorEquals": ["States.ALL"], "ResultPath": "$.err", "Next": "Caught"}]
            states["Caught"] = {"Type": "Pass", "End": True}
        st_, r_ = w.create_state_machine("m", {"StartAt": "Fan", "States": states})
        if st_ != 200:
            raise HarnessError("map-selector machine refused: %r" % (r_,))
        st_, resp = w.start_execution(W.sm_arn("m"), data, name="e")
        w.run()
        term = w.terminal(resp["executionArn"])
        left = w.broker.total_unacked("engine:A")
        held = len(w.engine().state_engine.branch_metadata)
    finally:
        w.close()
    if term is None:
        return [("map-selector:no-terminal" + (":selector-fails" if failing is not None else ""), "Map with ItemSelector %r over %r (MaxConcurrency %s, Catch %s) never ended; %d deliveries unacknowledged" % (
            tpl, sc["items"], sc["mc"], bool(sc.get("catch")), left))], False
    if failing is not None:
        where = "first-item" if failing == 0 else "later-item"
        if sc.get("catch"):
            out_ = json.loads(term["output"]) if term["status"] == "SUCCEEDED" else None
            if term["status"] != "SUCCEEDED" or not isinstance(out_, dict) or (out_.get("err") or {}).get("Error") != "States.IntrinsicFailure" or out_.get("items") != sc["items"]:
                return [("map-selector:caught-failure-wrong-outcome:" + where, "item %d of %r cannot be selected; the Map state's Catcher leads to a Pass End state, the execution ended %s/%s %s" % (
                    failing, sc["items"], term["status"], term.get("error"), (term.get("cause") or term.get("output") or "")[:200]))], False
        elif term["status"] != "FAILED" or term.get("error") != "States.IntrinsicFailure":
            return [("map-selector:failure-wrong-outcome:" + where, "item %d of %r cannot be selected; the execution ended %s/%s" % (failing, sc["items"], term["status"], term.get("error")))], False
        if left or held:
            return [("map-selector:left-behind-after-selector-failure:" + where, "%d deliveries unacknowledged, %d join states kept after the execution ended" % (left, held))], False
        return [], False
    if term["status"] != "SUCCEEDED":
        return [("map-selector:status", "Map with ItemSelector %r over %r ended %s/%s" % (tpl, sc["items"], term["status"], term.get("error")))], False
    got = json.loads(term["output"])
    if not (isinstance(got, list) and len(got) == len(exp)):
        return [("map-selector:shape", "output %s" % term["output"][:300])], False
    for idx, (g_, e_) in enumerate(zip(got, exp)):
        if not rt.tree_matches(g_, e_):
            return [("map-selector:item-input-differs:%s" % ("first" if idx == 0 else "later"), "item %d of %r (MaxConcurrency %s): selector gave %s, the template evaluates to %s" % (
                idx, sc["items"], sc["mc"], json.dumps(g_)[:300], _show(e_)))], False
    return [], False


# ------------------------------------------------------------------ campaign
def shard(k, seed, tier, examples=500, engine_cases=10):
    import hypothesis
    from hypothesis import given, settings, HealthCheck, Phase, strategies as st
    from ..gen import intrinsics as gi
    install_canary()
    env.cap_memory()        # an expression that asks for an enormous array must fail, not exhaust the machine (finding F112)
    camp = Campaign(PID, rule=RULE, tier=tier, seed=seed)
    depth = 3 if tier == "thorough" else 2
    hs_exprs = []
    eng = []

    def one_expr(expr, feats, tag):
        try:
            fails, skipped = check_expr(expr, feats)
        except Exception as e:
            camp.harness_error("harness crashed on %r: %r %s" % (expr, e, traceback.format_exc()[-800:]))
            return
        case = {"kind": "expr", "expr": expr, "features": sorted(feats)}
        if skipped:
            camp.count("skipped-unspecified")
            return
        nt = bool(feats)
        camp.case(case, nontrivial=nt, classes=[tag, "fn:" + outer_function(expr)] + ["feat:" + f for f in feats],
                  sample={"expr": expr, "features": sorted(feats), "repo": _show(run_repo(expr, copy.deepcopy(gi.BASE_INPUT), copy.deepcopy(gi.BASE_CONTEXT))[1:2])})
        for b, d in fails:
            camp.fail(b, case, d)
        if len(hs_exprs) < (400 if tier == "thorough" else 60) and not fails:
            hs_exprs.append(expr)
        if len(eng) < engine_cases and camp.evaluations % 7 == 0 and cause_tag(feats, "").startswith(("plain", "ill:type", "ill:arity", "ill:name", "ill:bad-path")):
            eng.append(expr)

    @hypothesis.seed(seed)
    @settings(max_examples=examples, deadline=None, database=None, suppress_health_check=list(HealthCheck), phases=[Phase.generate])
    @given(gi.calls(depth))
    def well_formed(node):
        one_expr(node.render(), gi.features(node), "well-formed")

    @hypothesis.seed(seed + 1)
    @settings(max_examples=max(50, examples // 4), deadline=None, database=None, suppress_health_check=list(HealthCheck), phases=[Phase.generate])
    @given(gi.ill_formed())
    def ill(t):
        expr, tag = t
        # only assert when the reference agrees that the text is ill-formed
        one_expr(expr, {"ill-formed-" + tag}, "ill-formed")

    @hypothesis.seed(seed + 2)
    @settings(max_examples=max(50, examples // 4), deadline=None, database=None, suppress_health_check=list(HealthCheck), phases=[Phase.generate])
    @given(gi.templates())
    def tpls(tpl):
        try:
            fails, skipped = check_template(tpl)
        except Exception as e:
            camp.harness_error("harness crashed on template %r: %r" % (tpl, e))
            return
        if skipped:
            camp.count("skipped-unspecified")
            return
        case = {"kind": "template", "template": tpl}
        camp.case(case, nontrivial=len(tpl) >= 2, classes=["template"], sample=case)
        for b, d in fails:
            camp.fail(b, case, d)

    well_formed()
    ill()
    tpls()
    if k == 0:
        for expr, tag in CANARY_PROBES:
            case = {"kind": "canary", "expr": expr, "tag": tag}
            camp.case(case, nontrivial=True, classes=["canary"])
            for b, d in check_canary(expr, tag):
                camp.fail(b, case, d)
        for path, tag in [("$[?(__import__('verif_canary').hit())]", "jsonpath-filter-eval"), ("$.arr[(__import__('verif_canary').hit())]", "jsonpath-index-eval")]:
            case = {"kind": "canary-path", "path": path, "tag": tag}
            camp.case(case, nontrivial=True, classes=["canary"])
            for b, d in check_canary_path(path, tag):
                camp.fail(b, case, d)
    if hs_exprs:
        case = {"kind": "hashseed", "exprs": hs_exprs}
        try:
            for b, d in check_hashseed(hs_exprs):
                camp.fail(b, {"kind": "hashseed", "exprs": [d.split(" evaluates")[0].strip("'\"")]}, d)
            camp.count("hash-seed-compared", len(hs_exprs))
        except HarnessError as e:
            camp.harness_error(e)
    @hypothesis.seed(seed + 7)
    @settings(max_examples=max(14, engine_cases), deadline=None, database=None, suppress_health_check=list(HealthCheck), phases=[Phase.generate])
    @given(st.fixed_dictionaries({"kind": st.just("map-selector"), "members": st.lists(st.integers(0, len(SELECTOR_MEMBERS) - 1), min_size=1, max_size=4, unique=True),
                                  "items": st.lists(st.sampled_from([1, 1, 2, "x", {"k": 2}, [3], None, True]), min_size=1, max_size=5), "mc": st.sampled_from([0, 0, 1, 2, 3]),
                                  "catch": st.booleans()}))
    def selectors(sc):
        try:
            fs, skipped = check_map_selector(sc)
        except Exception as e:
            camp.harness_error("map-selector slice crashed on %r: %r" % (sc, e))
            return
        if skipped:
            camp.count("skipped-unspecified")
            return
        camp.case(sc, nontrivial=len(sc["items"]) >= 2, classes=["map-selector", "map-selector-items-%d" % min(len(sc["items"]), 3), "map-selector-mc-%d" % sc["mc"]] + (["map-selector-with-catch"] if sc.get("catch") else []))
        for b, d in fs:
            camp.fail(b, sc, d)
    selectors()
    for expr in eng:
        case = {"kind": "engine", "expr": expr}
        try:
            fs = check_engine(expr)
        except Exception as e:
            camp.harness_error("engine slice crashed on %r: %r" % (expr, e))
            continue
        camp.case(case, nontrivial=False, classes=["engine-slice"])
        for b, d in fs:
            camp.fail(b, case, d)
    return camp.export()


def calibrate():
    """The reference must reproduce the worked examples of the specification / AWS documentation."""
    d = {"name": "Foo", "template": "Hello, my name is {}.", "inputArray": [1, 2, 3, 4, 5, 6, 7, 8, 9], "lookingFor": 5,
         "json1": {"a": {"a1": 1, "a2": 2}, "b": 2}, "json2": {"a": {"a3": 1, "a4": 2}, "c": 3}, "inputString": "1,2,3,4,5", "splitter": ","}
    ex = [
        ("States.Format('Hello, my name is {}.', $.name)", "Hello, my name is Foo."),
        ("States.Format($.template, $.name)", "Hello, my name is Foo."),
        ("States.Array('Foo', 2020, $.name, null)", ["Foo", 2020, "Foo", None]),
        ("States.ArrayPartition($.inputArray, 4)", [[1, 2, 3, 4], [5, 6, 7, 8], [9]]),
        ("States.ArrayContains($.inputArray, $.lookingFor)", True),
        ("States.ArrayRange(1, 9, 2)", [1, 3, 5, 7, 9]),
        ("States.ArrayGetItem($.inputArray, 5)", 6),
        ("States.ArrayLength($.inputArray)", 9),
        ("States.Base64Encode('Data to encode')", "RGF0YSB0byBlbmNvZGU="),
        ("States.Base64Decode('RGVjb2RlZCBkYXRh')", "Decoded data"),
        ("States.Hash('input data', 'SHA-1')", "aaff4a450a104cd177d28d18d74485e8cae074b7"),
        ("States.JsonMerge($.json1, $.json2, false)", {"a": {"a3": 1, "a4": 2}, "b": 2, "c": 3}),
        ("States.MathAdd(111, -1)", 110),
        ("States.StringSplit($.inputString, $.splitter)", ["1", "2", "3", "4", "5"]),
        ("States.StringSplit('This.is+a,test=string', '.+,=')", ["This", "is", "a", "test", "string"]),
        ("States.StringToJson('{\"number\": 20}')", {"number": 20}),
        ("States.Format('Your name is {}, we are in the year {}', $.name, 2020)", "Your name is Foo, we are in the year 2020"),
        ("States.Format('a \\'quoted\\' word and a \\\\ backslash')", "a 'quoted' word and a \\ backslash"),
        ("States.Format('literal \\{braces\\} {}', 'x')", "literal {braces} x"),
        ("States.ArrayLength(States.ArrayPartition(States.ArrayRange(1, 9, 1), 4))", 3),
    ]
    for expr, want in ex:
        got = rt.evaluate_intrinsic(expr, d, {})
        if not rt.tree_matches(want, got) if isinstance(got, rt.Marker) else not rt.json_eq(got, want):
            raise HarnessError("ref.template calibration failed: %s -> %r, documented %r" % (expr, got, want))
    uq = rt.evaluate_intrinsic("States.ArrayUnique($.a)", {"a": [1, 2, 3, 3, 3, 3, 3, 3, 4]}, {})
    if not rt.matches([1, 2, 3, 4], uq):
        raise HarnessError("ArrayUnique calibration failed")
    for bad in ("States.Array(1", "States.Array('a)", "Nope(1)", "States.MathAdd(1)", "States.Array(1,, 2)"):
        try:
            rt.evaluate_intrinsic(bad, d, {})
            raise HarnessError("ref.template accepted ill-formed %r" % bad)
        except rt.IntrinsicFailure:
            pass
    t = {"a": 1, "b.$": "$.name", "c": {"d.$": "States.MathAdd(1, 2)", "e": "$.name"}, "f": ["$.name", {"g.$": "$.lookingFor"}]}
    want = {"a": 1, "b": "Foo", "c": {"d": 3, "e": "$.name"}, "f": ["$.name", {"g": 5}]}
    if rt.evaluate_template(t, d, {}) != want:
        raise HarnessError("template calibration failed")


def main(tier, seed, replay=None):
    camp = Campaign(PID, rule=RULE, tier=tier, seed=seed)
    camp.assumptions = [
        "paths are definite; braces appear only in States.Format templates (as {} placeholders or escaped \\{ \\}); Format arguments are strings or integers",
        "StringSplit inputs have no adjacent/leading/trailing separators; ArrayUnique is compared as a set of distinct values (any order) plus hash-seed independence",
        "ArrayRange with a negative increment may either fail with IntrinsicFailure or return the full inclusive range",
        "an expression is only asserted ill-formed when the reference parser/evaluator says so; cases the reference marks unspecified are skipped and counted",
    ]
    try:
        calibrate()
        repo()
    except HarnessError as e:
        camp.harness_error(e)
        return camp.finish()
    if replay:
        with open(replay) as fp:
            rec = json.load(fp)
        for b, d in replay_case(rec["case"]):
            camp.fail(b, rec["case"], d)
        camp.case(rec["case"], True)
        camp.min_nontrivial = 0
        camp.write_evidence = False
        return camp.finish()
    install_canary()
    camp.run_witnesses(replay_case)
    # directed: random-valued functions nested in path-free calls (where a result cache keyed by the call text would freeze them)
    install_canary()
    for expr in ["States.Format('req-{}', States.UUID())", "States.Array(States.UUID(), States.UUID())", "States.Base64Encode(States.Format('{}', States.UUID()))",
                 "States.Format('{}/{}', States.UUID(), 'x')", "States.ArrayGetItem(States.Array(States.UUID(), 1), 0)", "States.JsonToString(States.Array(States.UUID()))", "States.UUID()"]:
        c = {"kind": "expr", "expr": expr, "features": ["nested-uuid"]}
        camp.case(c, nontrivial=True, classes=["directed-nested-uuid"])
        for b, d in check_expr(expr, ("nested-uuid",))[0]:
            camp.fail(b, c, d)
    from .. import fuzz
    if tier == "thorough":
        fuzz.campaign(camp, __name__, runs=150000, shards=16)
    elif fuzz.available():
        fuzz.campaign(camp, __name__, runs=4000, shards=4)
    else:
        camp.extra["fuzz"] = "atheris not importable: the coverage-guided family was skipped in the quick tier (the thorough tier requires it)"
    if tier == "thorough":
        run_shards(camp, __name__, "shard", 16, examples=30000, engine_cases=40)
    else:
        run_shards(camp, __name__, "shard", 8, examples=500, engine_cases=6)
    return camp.finish()


# ------------------------------------------------------------ coverage-guided family (thorough tier)
FUZZ_SEEDS = [
    "States.Format('{} and {}', $.s, $.n)", "States.Array(1, 'x', null, true, $.f)", "States.ArrayPartition($.arr, 2)", "States.ArrayContains($.arr, 3)",
    "States.ArrayRange(1, 9, 2)", "States.ArrayGetItem($.arr, 0)", "States.ArrayLength($.arr)", "States.ArrayUnique($.arr)", "States.Base64Encode('a b')",
    "States.Base64Decode('YSBi')", "States.Hash('x', 'SHA-256')", "States.JsonMerge($.obj, $.obj2, false)", "States.JsonToString($.obj)", "States.StringToJson($.js)",
    "States.MathAdd($.n, -1)", "States.MathRandom(1, 2)", "States.StringSplit('a,b;c', ',;')", "States.UUID()",
    "States.Format('it\\'s {}', States.Format('\\{{}\\}', States.ArrayLength(States.Array(1, States.Array()))))", "States.Format('a\\\\', $$.Execution.Name)",
]
FUZZ_DICT = ["States.", "Format", "Array", "ArrayPartition", "ArrayContains", "ArrayRange", "ArrayGetItem", "ArrayLength", "ArrayUnique", "Base64Encode", "Base64Decode", "Hash", "JsonMerge",
             "JsonToString", "StringToJson", "MathAdd", "MathRandom", "StringSplit", "UUID", "(", ")", ", ", "'", "\\'", "\\\\", "{}", "\\{", "\\}", "$.s", "$.n", "$.arr", "$.obj", "$$.", "$", "null",
             "true", "false", "-1", "1.5", "1e3", "'SHA-1'", "'MD5'", "''", " ", "\t"]


def fuzz_setup():
    repo()
    install_canary()
    return {"dict": FUZZ_DICT, "corpus": FUZZ_SEEDS + ["States.ArrayRange(1, 1000, 1)", "States.ArrayRange(0, 1000000, 1000)"], "max_len": 160, "memory_cap_gib": 3.0}


def fuzz_one(data):
    try:
        expr = data.decode("utf-8")
    except UnicodeDecodeError:
        return None
    # path arguments containing filter / script expressions are evaluated with eval() by the path library (recorded finding C13-F14): never hand those to it
    if "[?" in expr or "[(" in expr or "__" in expr or not expr.startswith("States."):
        return None
    # which control and non-ASCII characters count as white space between tokens is not specified (Python's \s takes \x1c-\x1f and \x85, JSON does not): printable ASCII and tab only
    if any(not (32 <= ord(ch) < 127 or ch == "\t") for ch in expr):
        return None
    # path arguments outside the definite Reference Path grammar (C12's stated domain) are the path library's business: it reads e.g. '$.ob]j' as '$.obj'
    import re
    # (a path glued to a string literal, as in $.s',;', is read by the library as the path in front of the quote: same leniency, same exclusion)
    # (an argument is everything up to the next comma or parenthesis: '$ \\#2' is one argument, and no Reference Path - the library's normaliser then trips over its own '#n' placeholders)
    for tok in (t.strip() for t in re.findall(r"\$[^,()]*", re.sub(r"'(?:\\.|[^'\\])*'", "''", expr))):
        if not re.fullmatch(r"\$\$?(?:\.[A-Za-z_][A-Za-z0-9_]*|\[\d+\])*", tok):
            return None
    try:
        fails, skipped = check_expr(expr, feats=("fuzz",))
    except RecursionError:
        return None
    except (rt.IntrinsicFailure, rt.PathFailure, rt.Unspecified):
        return None
    classes = ["fuzz-expression", "fuzz-" + ("unspecified" if skipped else "judged")]
    # an expression with several defects (unknown function *and* a path that addresses nothing) may be refused with either clean failure
    fails = [(b, d) for b, d in fails if not b.startswith("wrong-failure-kind:path-failure") and not b.startswith("missed-path-failure")]
    fails = [(b.split(":")[0] + ":" + (b.split(":")[1] + ":" if b.startswith("exception-type") else "") + "fuzz", d) for b, d in fails]
    return {"case": {"kind": "expr", "expr": expr, "feats": ["fuzz"]}, "classes": classes, "nontrivial": expr.count("(") >= 2 or "\\" in expr, "fails": fails}
