"""
Campaign runner: collect-then-report, evidence, known findings, replay.

A check builds one Campaign, feeds it cases (`case()`), reports oracle failures
(`fail()`), and calls `finish()` which writes /verif/evidence/<ID>.json, prints
KNOWN-FINDING / VIOLATION lines and returns the process exit status:

  0  property held on everything explored (known findings are listed, not hidden)
  1  at least one failure bucket that known_findings.json does not list
  2  the harness itself is unhealthy (calibration, generator health, budget)
"""
import os, sys, json, time, hashlib, traceback, fnmatch

from . import env

KNOWN_FINDINGS_FILE = os.path.join(env.VERIF_ROOT, "known_findings.json")


class HarnessError(Exception):
    """The check itself is broken: exit 2, never a VIOLATION."""


def canon(obj):
    return json.dumps(obj, sort_keys=True, default=repr, separators=(",", ":"))


def digest(obj):
    return hashlib.sha1(canon(obj).encode("utf-8", "replace")).hexdigest()[:16]


def load_known_findings(pid):
    try:
        with open(KNOWN_FINDINGS_FILE) as fp:
            entries = json.load(fp)
    except FileNotFoundError:
        return []
    return [e for e in entries if e.get("property") == pid]


class Campaign:
    def __init__(self, pid, level="exploration", rule="", tier=None, seed=None,
                 min_nontrivial=2):
        self.pid = pid
        self.level = level
        self.rule = rule
        self.tier = tier or env.TIER
        self.seed = env.SEED if seed is None else seed
        self.t0 = time.time()
        self.evaluations = 0
        self.nontrivial = set()
        self.classes = {}
        self.samples = []
        self.max_samples = 6
        self.buckets = {}        # bucket -> {"count", "case", "detail", "size"}
        self.known_hits = {}     # finding id -> count
        self.excluded = {}       # finding id -> count (excluded by construction)
        self.assumptions = []
        self.extra = {}
        self.exhaustive = None
        self.min_nontrivial = min_nontrivial
        self.harness_errors = []
        self.write_evidence = True   # False in --replay mode: a replay is not a campaign
        self.findings = load_known_findings(pid)
        self.open_findings = [f for f in self.findings if f.get("status") == "open"]
        self.fixed_findings = [f for f in self.findings if f.get("status") == "fixed"]
        self.witness_status = {}  # finding id -> True (still violates) / False

    # ------------------------------------------------------------------ cases
    def case(self, case, nontrivial=False, classes=(), sample=None):
        self.evaluations += 1
        for c in classes:
            self.classes[c] = self.classes.get(c, 0) + 1
        if nontrivial:
            h = digest(case)
            if h not in self.nontrivial:
                self.nontrivial.add(h)
                if len(self.samples) < self.max_samples:
                    self.samples.append(sample if sample is not None else case)
        elif not self.samples and self.evaluations > 50:
            pass

    def count(self, cls, n=1):
        self.classes[cls] = self.classes.get(cls, 0) + n

    def exclude(self, finding_id, n=1):
        self.excluded[finding_id] = self.excluded.get(finding_id, 0) + n

    # --------------------------------------------------------------- failures
    def match_known(self, bucket):
        for f in self.open_findings:
            for pat in f.get("buckets", []):
                if fnmatch.fnmatchcase(bucket, pat):
                    return f
        return None

    def fail(self, bucket, case, detail=""):
        """Record an oracle failure.  `bucket` = "<clause>:<signature>".
        Classification (known finding vs new violation) happens in finish()."""
        size = len(canon(case))
        b = self.buckets.get(bucket)
        if b is None:
            self.buckets[bucket] = {"count": 1, "case": case, "detail": str(detail)[:2000], "size": size}
        else:
            b["count"] += 1
            if size < b["size"]:
                b.update(case=case, detail=str(detail)[:2000], size=size)

    def harness_error(self, msg):
        self.harness_errors.append(str(msg)[:2000])

    # ----------------------------------------------------------------- merge
    def export(self):
        return {
            "evaluations": self.evaluations,
            "nontrivial": list(self.nontrivial),
            "classes": self.classes,
            "samples": self.samples,
            "buckets": self.buckets,
            "known_hits": self.known_hits,
            "excluded": self.excluded,
            "harness_errors": self.harness_errors,
            "extra": self.extra,
        }

    def merge(self, d):
        self.evaluations += d["evaluations"]
        self.nontrivial.update(d["nontrivial"])
        for k, v in d["classes"].items():
            self.classes[k] = self.classes.get(k, 0) + v
        for s in d["samples"]:
            if len(self.samples) < self.max_samples:
                self.samples.append(s)
        for k, b in d["buckets"].items():
            mine = self.buckets.get(k)
            if mine is None:
                self.buckets[k] = b
            else:
                mine["count"] += b["count"]
                if b["size"] < mine["size"]:
                    mine.update(case=b["case"], detail=b["detail"], size=b["size"])
        for k, v in d["known_hits"].items():
            self.known_hits[k] = self.known_hits.get(k, 0) + v
        for k, v in d["excluded"].items():
            self.excluded[k] = self.excluded.get(k, 0) + v
        self.harness_errors.extend(d["harness_errors"])
        for k, v in d.get("extra", {}).items():
            cur = self.extra.get(k)
            if isinstance(v, bool) and isinstance(cur, bool):
                self.extra[k] = cur and v
            elif isinstance(v, (int, float)) and not isinstance(v, bool) and isinstance(cur, (int, float)) and not isinstance(cur, bool):
                self.extra[k] += v
            elif isinstance(v, dict) and isinstance(cur, dict):
                cur.update(v)
            else:
                self.extra.setdefault(k, v)

    # ------------------------------------------------------ findings/replays
    def run_witnesses(self, replay_fn):
        """
        Run the replay tier in a forked child and merge what it found: the
        parent's heap stays small, so that the shard processes forked next do not
        pay (copy-on-write) for whatever the witnesses left behind.
        """
        env.workdir()   # create the scratch root in the parent so that it is removed when the parent exits
        r, w_ = os.pipe()
        sys.stdout.flush()
        pid = os.fork()
        if pid == 0:
            status = 0
            try:
                os.close(r)
                sub = Campaign(self.pid, rule="", tier=self.tier, seed=self.seed)
                sub._run_witnesses(replay_fn)
                payload = json.dumps({"export": sub.export(), "witness_status": sub.witness_status}, default=repr).encode()
                with os.fdopen(w_, "wb") as fp:
                    fp.write(payload)
            except BaseException:
                traceback.print_exc()
                status = 1
            finally:
                sys.stdout.flush()
                os._exit(status)
        os.close(w_)
        with os.fdopen(r, "rb") as fp:
            raw = fp.read()
        os.waitpid(pid, 0)
        try:
            d = json.loads(raw.decode())
        except ValueError:
            self.harness_error("the witness replay process died without a result")
            return
        self.merge(d["export"])
        self.witness_status.update(d["witness_status"])

    def _run_witnesses(self, replay_fn):
        """
        replay_fn(case) -> list of (bucket, detail) failures for that case.
        Executes the witness of every listed finding and every file in
        replays/<ID>/ (the seconds-long replay tier).
        """
        for f in self.findings:
            w = f.get("witness")
            if not w:
                continue
            path = os.path.join(env.VERIF_ROOT, w)
            try:
                with open(path) as fp:
                    rec = json.load(fp)
                fails = replay_fn(rec["case"])
            except Exception as e:
                self.harness_error("witness %s failed to replay: %r\n%s" % (w, e, traceback.format_exc()))
                continue
            self.evaluations += 1
            self.count("witness-replayed")
            hit = [b for b, _ in fails
                   if any(fnmatch.fnmatchcase(b, p) for p in f.get("buckets", []))]
            if f.get("status") == "open":
                self.witness_status[f["id"]] = bool(hit)
            for b, d in fails:
                self.fail(b, rec["case"], d)
        rdir = os.path.join(env.VERIF_ROOT, "replays", self.pid)
        if os.path.isdir(rdir):
            listed = {os.path.basename(f.get("witness", "")) for f in self.findings}
            for name in sorted(os.listdir(rdir)):
                if not name.endswith(".json") or name in listed:
                    continue
                try:
                    with open(os.path.join(rdir, name)) as fp:
                        rec = json.load(fp)
                    fails = replay_fn(rec["case"])
                except Exception as e:
                    self.harness_error("replay %s failed: %r" % (name, e))
                    continue
                self.evaluations += 1
                self.count("replay-tier")
                for b, d in fails:
                    self.fail(b, rec["case"], d)

    # ----------------------------------------------------------------- finish
    def finish(self):
        wall = time.time() - self.t0
        # (runs against a patched copy of the repository - mutants - keep their replay files apart from those of /repo itself)
        out_dir = os.path.join(env.VERIF_ROOT, "out", "replays" if os.path.realpath(env.REPO) == "/repo" else "mutant-replays", self.pid)
        violations = []
        for bucket, b in sorted(self.buckets.items()):
            f = self.match_known(bucket)
            if f is not None and self.witness_status.get(f["id"], True):
                # a listed finding whose witness still reproduces: not an alarm
                self.known_hits[f["id"]] = self.known_hits.get(f["id"], 0) + b["count"]
                continue
            os.makedirs(out_dir, exist_ok=True)
            safe = "".join(ch if ch.isalnum() or ch in "-_." else "_" for ch in bucket)[:100]
            path = os.path.join(out_dir, safe + "-" + digest(bucket)[:6] + ".json")
            with open(path, "w") as fp:
                json.dump({"property": self.pid, "bucket": bucket, "count": b["count"],
                           "detail": b["detail"], "case": b["case"],
                           "seed": self.seed, "tier": self.tier}, fp, indent=1, default=repr)
            violations.append((bucket, path, b))
        for f in self.open_findings:
            if self.witness_status.get(f["id"], self.known_hits.get(f["id"], 0) > 0):
                print("KNOWN-FINDING: property=%s %s [%s; hits=%d excluded=%d]" % (
                    self.pid, f["summary"], f["id"],
                    self.known_hits.get(f["id"], 0), self.excluded.get(f["id"], 0)))
        for bucket, path, b in violations:
            print("VIOLATION property=%s replay=%s" % (self.pid, path))
            print("  bucket=%s count=%d detail=%s" % (bucket, b["count"], b["detail"][:300].replace("\n", " | ")))
        if self.evaluations and len(self.nontrivial) < self.min_nontrivial:
            self.harness_error("only %d distinct non-trivial cases (need >= %d): generator is not reaching the interesting class"
                               % (len(self.nontrivial), self.min_nontrivial))
        for e in self.harness_errors:
            print("HARNESS-ERROR property=%s %s" % (self.pid, e[:600].replace("\n", " | ")))
        coverage = {
            "evaluations": int(self.evaluations),
            "distinct_nontrivial": len(self.nontrivial),
            "rule": self.rule,
            "samples": self.samples[: self.max_samples] or [{"note": "no non-trivial sample recorded"}],
            "classes": dict(sorted(self.classes.items())),
            "known_finding_hits": self.known_hits,
            "excluded_by_construction": self.excluded,
            "violation_buckets": {k: v[2]["count"] for k, v in ((x[0], x) for x in violations)},
            "all_failure_buckets": {k: v["count"] for k, v in self.buckets.items()},
            "harness_errors": self.harness_errors,
        }
        if self.exhaustive is not None:
            coverage["exhaustive"] = bool(self.exhaustive)
        coverage.update(self.extra)
        evidence = {
            "property_id": self.pid,
            "tier": self.tier if self.tier in ("quick", "thorough") else "quick",
            "seed": int(self.seed),
            "level": self.level,
            "coverage": coverage,
            "assumptions": self.assumptions,
            "wall_s": round(wall, 3),
            "violations": len(violations),
        }
        real = self.write_evidence and os.path.realpath(env.REPO) == "/repo"   # mutant / replay runs never touch evidence/
        edir = os.path.join(env.VERIF_ROOT, "evidence" if real else os.path.join("out", "scratch-evidence"))
        os.makedirs(edir, exist_ok=True)
        tmp = os.path.join(edir, ".%s.%d.tmp" % (self.pid, os.getpid()))
        with open(tmp, "w") as fp:
            json.dump(evidence, fp, indent=1, default=repr)
        os.replace(tmp, os.path.join(edir, self.pid + ".json"))
        print("%s tier=%s seed=%d evaluations=%d distinct_nontrivial=%d violations=%d known_hits=%s wall=%.1fs" % (
            self.pid, self.tier, self.seed, self.evaluations, len(self.nontrivial),
            len(violations), dict(self.known_hits), wall))
        if violations:
            return 1
        if self.harness_errors:
            return 2
        return 0


# --------------------------------------------------------------------- sharding
def _shard_entry(args):
    modname, fn, k, seed, tier, kwargs = args
    import importlib
    os.environ["VERIF_SEED"] = str(seed)
    os.environ["VERIF_TIER"] = tier
    env.SEED = seed
    env.TIER = tier
    mod = importlib.import_module(modname)
    try:
        return getattr(mod, fn)(k, seed, tier, **kwargs)
    except BaseException as e:  # noqa
        return {"evaluations": 0, "nontrivial": [], "classes": {}, "samples": [],
                "buckets": {}, "known_hits": {}, "excluded": {}, "extra": {},
                "harness_errors": ["shard %d crashed: %r\n%s" % (k, e, traceback.format_exc())]}


def run_shards(camp, modname, fn, _n, **kwargs):
    nshards = _n
    """Run `modname.fn(k, seed_k, tier, **kwargs) -> Campaign.export()` on a pool."""
    import multiprocessing as mp
    env.workdir()   # create the scratch root in the parent so that it is removed when the parent exits
    jobs = [(modname, fn, k, camp.seed * 1000 + k, camp.tier, kwargs) for k in range(nshards)]
    if nshards == 1:
        res = [_shard_entry(jobs[0])]
    else:
        ctx = mp.get_context("fork")
        with ctx.Pool(min(nshards, os.cpu_count() or 1)) as pool:
            res = pool.map(_shard_entry, jobs, chunksize=1)
    for d in res:
        camp.merge(d)
