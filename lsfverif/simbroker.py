"""
Deterministic, single-threaded model of a RabbitMQ (AMQP 0-9-1) broker with the
feature set fadams/local-step-functions uses, plus the virtual clock.

The broker never acts on its own: deliveries, timer expiries, returns of
unroutable mandatory messages and clock advances are *actions* the harness
chooses (World.step).  Every operation is appended to `oplog`.
"""
import collections, heapq, itertools, json, re

CURRENT = None          # the broker new fake-pika connections attach to


def current():
    if CURRENT is None:
        raise RuntimeError("no simulated broker installed (lsfverif.simbroker.CURRENT)")
    return CURRENT


class Crash(BaseException):
    """Raised by the fake inside a handler to model the process dying at that
    broker operation.  BaseException so that the engine's `except Exception`
    clauses cannot swallow it."""


class BrokerClose(Exception):
    """Channel-level protocol error: (reply_code, reply_text)."""

    def __init__(self, code, text):
        Exception.__init__(self, code, text)
        self.code, self.text = code, text


# ------------------------------------------------------------------ the clock
class VClock:
    def __init__(self, start=1_700_000_000.0, tick=0.0):
        self.now = float(start)
        self.tick = tick        # optional increment per read (strict-monotonic stamps)

    def time(self):
        t = self.now
        if self.tick:
            self.now += self.tick
        return t

    def advance_to(self, t):
        if t > self.now:
            self.now = t


# ---------------------------------------------------------------- data model
class QMsg:
    __slots__ = ("uid", "body", "props", "exchange", "routing_key", "redelivered", "expires", "mandatory",
                 "published_at", "publisher")

    def __init__(self, uid, body, props, exchange, routing_key, expires, mandatory, published_at, publisher):
        self.uid = uid
        self.body = body
        self.props = props
        self.exchange = exchange
        self.routing_key = routing_key
        self.redelivered = False
        self.expires = expires
        self.mandatory = mandatory
        self.published_at = published_at
        self.publisher = publisher


class Queue:
    def __init__(self, name, durable, exclusive_owner, auto_delete, arguments):
        self.name = name
        self.durable = durable
        self.exclusive_owner = exclusive_owner   # connection or None
        self.auto_delete = auto_delete
        self.arguments = arguments
        self.messages = collections.deque()
        self.consumers = []                      # ConsumerRec
        self.had_consumer = False


class Exchange:
    def __init__(self, name, type_, durable=False, auto_delete=False, arguments=None, internal=False):
        self.name = name
        self.type = type_
        self.durable = durable
        self.auto_delete = auto_delete
        self.arguments = arguments
        self.bindings = []                       # (queue_name, routing_key, arguments)


class ConsumerRec:
    def __init__(self, tag, queue, channel, callback, auto_ack, exclusive, arguments, prefetch):
        self.tag = tag
        self.queue = queue
        self.channel = channel
        self.callback = callback
        self.auto_ack = auto_ack
        self.exclusive = exclusive
        self.arguments = arguments or {}
        self.prefetch = prefetch                 # 0 = unlimited
        self.unacked = 0
        self.last_served = 0                     # for round-robin among the consumers of a queue

    @property
    def priority(self):
        try:
            return int((self.arguments or {}).get("x-priority", 0))
        except Exception:
            return 0

    def has_credit(self):
        return self.auto_ack or self.prefetch == 0 or self.unacked < self.prefetch


class Timer:
    __slots__ = ("deadline", "seq", "callback", "owner", "cancelled", "ctx", "label", "corr")

    def __init__(self, deadline, seq, callback, owner, ctx, label):
        self.deadline, self.seq, self.callback, self.owner = deadline, seq, callback, owner
        self.cancelled = False
        self.ctx = ctx
        self.label = label

    def __lt__(self, other):
        return (self.deadline, self.seq) < (other.deadline, other.seq)


def topic_match(pattern, key):
    """AMQP topic matching: words separated by '.', '*' = one word, '#' = zero or more."""
    pw, kw = pattern.split("."), key.split(".")

    def m(i, j):
        if i == len(pw):
            return j == len(kw)
        if pw[i] == "#":
            return any(m(i + 1, k) for k in range(j, len(kw) + 1))
        if j == len(kw):
            return False
        if pw[i] == "*" or pw[i] == kw[j]:
            return m(i + 1, j + 1)
        return False
    return m(0, 0)


class Broker:
    def __init__(self, clock=None):
        self.clock = clock or VClock()
        self.exchanges = {}
        for name, t in (("", "direct"), ("amq.direct", "direct"), ("amq.topic", "topic"),
                        ("amq.fanout", "fanout"), ("amq.headers", "headers"), ("amq.match", "headers")):
            self.exchanges[name] = Exchange(name, t, durable=True)
        self.queues = {}
        self.connections = []
        self.oplog = []
        self.opseq = itertools.count(1)
        self.uidseq = itertools.count(1)
        self.timerseq = itertools.count(1)
        self.tagseq = itertools.count(1)
        self.timers = []                         # heap of Timer
        self.pending_returns = collections.deque()   # (channel, QMsg)
        self.taps = []                           # (exchange, pattern, fn(qmsg))
        self.ctx = None                          # current handler context (see World)
        self.owner_label = "harness"             # label given to the next connection
        self.protocol_errors = []                # (vtime, kind, detail) e.g. ack of unknown tag
        self.crash_at_op = None                  # (owner_label, n): raise Crash at that owner's n-th op
        self.opcount = {}                        # owner label -> number of ops issued inside handlers
        self.server_named = itertools.count(1)

    # ------------------------------------------------------------------ log
    def log(self, kind, owner=None, **kw):
        rec = {"seq": next(self.opseq), "t": self.clock.now, "kind": kind, "owner": owner, "ctx": self.ctx, "step": getattr(self, "step_no", 0)}
        rec.update(kw)
        self.oplog.append(rec)
        return rec

    def count_op(self, owner):
        """Called by the fake for every client->broker operation issued by `owner`;
        implements intra-handler crash injection."""
        n = self.opcount.get(owner, 0) + 1
        self.opcount[owner] = n
        if self.crash_at_op is not None and self.crash_at_op[0] == owner and n == self.crash_at_op[1]:
            self.crash_at_op = None
            raise Crash("crash of %s at its op #%d" % (owner, n))

    # ------------------------------------------------------------ declaring
    def exchange_declare(self, ch, exchange, exchange_type="direct", passive=False, durable=False,
                         auto_delete=False, internal=False, arguments=None):
        ex = self.exchanges.get(exchange)
        if passive:
            if ex is None:
                raise BrokerClose(404, "NOT_FOUND - no exchange '%s' in vhost '/'" % exchange)
            self.log("exchange_declare_passive", ch.owner, exchange=exchange)
            return
        if ex is None:
            self.exchanges[exchange] = Exchange(exchange, getattr(exchange_type, "value", exchange_type), durable, auto_delete, arguments, internal)
        else:
            t = getattr(exchange_type, "value", exchange_type)
            if ex.type != t or ex.durable != durable or ex.auto_delete != auto_delete:
                if not exchange.startswith("amq."):
                    raise BrokerClose(406, "PRECONDITION_FAILED - inequivalent arg for exchange '%s'" % exchange)
        self.log("exchange_declare", ch.owner, exchange=exchange, type=getattr(exchange_type, "value", exchange_type),
                 durable=durable, auto_delete=auto_delete, arguments=arguments)

    def queue_declare(self, ch, queue="", passive=False, durable=False, exclusive=False, auto_delete=False, arguments=None):
        if queue == "":
            queue = "amq.gen-%06d" % next(self.server_named)
        q = self.queues.get(queue)
        if passive:
            if q is None:
                raise BrokerClose(404, "NOT_FOUND - no queue '%s' in vhost '/'" % queue)
        elif q is None:
            q = Queue(queue, durable, ch.connection if exclusive else None, auto_delete, arguments)
            self.queues[queue] = q
        else:
            if q.exclusive_owner is not None and q.exclusive_owner is not ch.connection:
                raise BrokerClose(405, "RESOURCE_LOCKED - cannot obtain exclusive access to locked queue '%s'" % queue)
            if q.durable != durable or q.auto_delete != auto_delete or bool(q.exclusive_owner) != bool(exclusive) or (q.arguments or None) != (arguments or None):
                raise BrokerClose(406, "PRECONDITION_FAILED - inequivalent arg for queue '%s'" % queue)
        self.log("queue_declare", ch.owner, queue=queue, passive=passive, durable=durable, exclusive=exclusive,
                 auto_delete=auto_delete, arguments=arguments)
        return queue, len(q.messages), len(q.consumers)

    def queue_bind(self, ch, queue, exchange, routing_key=None, arguments=None):
        if queue not in self.queues:
            raise BrokerClose(404, "NOT_FOUND - no queue '%s' in vhost '/'" % queue)
        ex = self.exchanges.get(exchange)
        if ex is None:
            raise BrokerClose(404, "NOT_FOUND - no exchange '%s' in vhost '/'" % exchange)
        b = (queue, routing_key if routing_key is not None else "", arguments)
        if b not in ex.bindings:
            ex.bindings.append(b)
        self.log("queue_bind", ch.owner, queue=queue, exchange=exchange, routing_key=routing_key, arguments=arguments)

    # ------------------------------------------------------------- consuming
    def basic_consume(self, ch, queue, callback, auto_ack=False, exclusive=False, consumer_tag=None, arguments=None):
        q = self.queues.get(queue)
        if q is None:
            raise BrokerClose(404, "NOT_FOUND - no queue '%s' in vhost '/'" % queue)
        if q.exclusive_owner is not None and q.exclusive_owner is not ch.connection:
            raise BrokerClose(405, "RESOURCE_LOCKED - cannot obtain exclusive access to locked queue '%s'" % queue)
        if any(c.exclusive for c in q.consumers) or (exclusive and q.consumers):
            raise BrokerClose(403, "ACCESS_REFUSED - queue '%s' in vhost '/' in exclusive use" % queue)
        tag = consumer_tag or "ctag%d.%d" % (ch.channel_number, next(self.tagseq))
        rec = ConsumerRec(tag, q, ch, callback, auto_ack, exclusive, arguments, ch.prefetch_count)
        q.consumers.append(rec)
        q.had_consumer = True
        ch.consumers[tag] = rec
        self.log("basic_consume", ch.owner, queue=queue, consumer_tag=tag, exclusive=exclusive, arguments=arguments,
                 prefetch=ch.prefetch_count, auto_ack=auto_ack)
        return tag

    def basic_cancel(self, ch, tag):
        rec = ch.consumers.pop(tag, None)
        if rec:
            rec.queue.consumers.remove(rec)
            self.log("basic_cancel", ch.owner, queue=rec.queue.name, consumer_tag=tag)
            self._maybe_autodelete(rec.queue)

    # ------------------------------------------------------------ publishing
    def route(self, exchange, routing_key, headers):
        ex = self.exchanges.get(exchange)
        if ex is None:
            raise BrokerClose(404, "NOT_FOUND - no exchange '%s' in vhost '/'" % exchange)
        if exchange == "":
            return [routing_key] if routing_key in self.queues else []
        out = []
        for (qname, key, args) in ex.bindings:
            if qname not in self.queues:
                continue
            if ex.type == "direct":
                ok = key == routing_key
            elif ex.type == "fanout":
                ok = True
            elif ex.type == "topic":
                ok = topic_match(key, routing_key)
            elif ex.type == "headers":
                args = dict(args or {})
                mode = args.pop("x-match", "all")
                hs = headers or {}
                tests = [hs.get(k) == v for k, v in args.items() if not k.startswith("x-")]
                ok = (all(tests) if mode == "all" else any(tests)) if tests else (mode == "all")
            else:
                ok = False
            if ok and qname not in out:
                out.append(qname)
        return out

    def basic_publish(self, ch, exchange, routing_key, body, properties, mandatory=False):
        if isinstance(body, str):
            body = body.encode("utf-8")
        expires = None
        exp = getattr(properties, "expiration", None)
        if exp is not None:
            if not isinstance(exp, str) or not re.fullmatch(r"[0-9]+", exp):
                # RabbitMQ: invalid expiration => connection/channel error 406
                self.protocol_errors.append((self.clock.now, "invalid-expiration", repr(exp)))
                self.log("publish_invalid_expiration", ch.owner, expiration=repr(exp))
                raise BrokerClose(406, "PRECONDITION_FAILED - invalid expiration '%s'" % (exp,))
            expires = self.clock.now + int(exp) / 1000.0
        targets = self.route(exchange, routing_key, getattr(properties, "headers", None))
        uid = next(self.uidseq)
        msg = QMsg(uid, body, properties, exchange, routing_key, expires, mandatory, self.clock.now, ch.owner)
        self.log("publish", ch.owner, uid=uid, exchange=exchange, routing_key=routing_key, queues=list(targets),
                 message_id=getattr(properties, "message_id", None), correlation_id=getattr(properties, "correlation_id", None),
                 reply_to=getattr(properties, "reply_to", None), expiration=exp, mandatory=mandatory, channel=ch.uid,
                 body=body)
        for (ex, pat, fn) in self.taps:
            if ex == exchange and topic_match(pat, routing_key):
                fn(msg)
        if not targets:
            if mandatory:
                self.pending_returns.append((ch, msg))
            return msg
        first = True
        for qname in targets:
            m = msg if first else QMsg(next(self.uidseq), body, properties, exchange, routing_key, expires, mandatory, self.clock.now, ch.owner)
            first = False
            self.queues[qname].messages.append(m)
        return msg

    # --------------------------------------------------------------- actions
    def purge_expired(self):
        for q in self.queues.values():
            while q.messages and q.messages[0].expires is not None and q.messages[0].expires <= self.clock.now:
                m = q.messages.popleft()
                self.log("expired", None, uid=m.uid, queue=q.name)

    def deliverable(self):
        """[(queue_name, ConsumerRec)] pairs that could receive the head message now."""
        self.purge_expired()
        out = []
        for name in sorted(self.queues):
            q = self.queues[name]
            if not q.messages:
                continue
            ready = [c for c in q.consumers if c.has_credit() and c.channel.is_open]
            if not ready:
                continue
            top = max(c.priority for c in ready)
            for c in ready:
                if c.priority == top:
                    out.append((name, c))
        return out

    def push(self, qname, consumer):
        """Take the head of the queue for `consumer` (the basic.deliver frame leaves the broker)."""
        q = self.queues[qname]
        msg = q.messages.popleft()
        ch = consumer.channel
        tag = ch.next_delivery_tag
        ch.next_delivery_tag += 1
        if not consumer.auto_ack:
            ch.unacked[tag] = (q, msg, consumer)
            consumer.unacked += 1
        self.serve_seq = getattr(self, "serve_seq", 0) + 1
        consumer.last_served = self.serve_seq
        self.log("deliver", ch.owner, uid=msg.uid, queue=qname, consumer_tag=consumer.tag, delivery_tag=tag,
                 redelivered=msg.redelivered, message_id=getattr(msg.props, "message_id", None),
                 correlation_id=getattr(msg.props, "correlation_id", None), channel=ch.uid)
        return tag, msg

    # ---------------------------------------------------------------- acking
    def basic_ack(self, ch, delivery_tag=0, multiple=False):
        if multiple:
            tags = [t for t in sorted(ch.unacked) if delivery_tag == 0 or t <= delivery_tag]
            if delivery_tag != 0 and delivery_tag not in ch.unacked and not tags:
                self._bad_ack(ch, delivery_tag, multiple)
                return
        else:
            if delivery_tag not in ch.unacked:
                self._bad_ack(ch, delivery_tag, multiple)
                return
            tags = [delivery_tag]
        for t in tags:
            q, msg, consumer = ch.unacked.pop(t)
            consumer.unacked -= 1
            self.log("ack", ch.owner, uid=msg.uid, queue=q.name, delivery_tag=t, multiple=multiple,
                     message_id=getattr(msg.props, "message_id", None), channel=ch.uid)

    def _bad_ack(self, ch, tag, multiple):
        self.protocol_errors.append((self.clock.now, "ack-unknown-delivery-tag", "%s tag=%r multiple=%r" % (ch.owner, tag, multiple)))
        self.log("ack_unknown", ch.owner, delivery_tag=tag, multiple=multiple, channel=ch.uid)

    def basic_recover(self, ch, requeue=True):
        self._requeue_channel(ch)

    # ---------------------------------------------------------------- timers
    def call_later(self, owner_conn, delay, callback, label=None):
        t = Timer(self.clock.now + max(0.0, float(delay)), next(self.timerseq), callback, owner_conn, self.ctx, label)
        heapq.heappush(self.timers, t)
        self.log("timer_set", owner_conn.owner if owner_conn is not None else "harness", timer=t.seq, deadline=t.deadline,
                 label=label or getattr(callback, "__qualname__", repr(callback)))
        return t

    def cancel_timer(self, t):
        if t is not None and not t.cancelled:
            t.cancelled = True
            self.log("timer_cancel", t.owner.owner if t.owner is not None else "harness", timer=t.seq)

    def live_timers(self):
        while self.timers and self.timers[0].cancelled:
            heapq.heappop(self.timers)
        live = [t for t in self.timers if not t.cancelled]
        if len(self.timers) > 32 and len(live) * 2 < len(self.timers):
            # cancelled timers with far deadlines (e.g. the time-out of every completed task) would otherwise pile up in the heap
            self.timers = list(live)
            heapq.heapify(self.timers)
        return live

    def due_timers(self):
        return sorted(t for t in self.live_timers() if t.deadline <= self.clock.now)

    def next_deadline(self, exclude=lambda t: False):
        ds = [t.deadline for t in self.live_timers() if not exclude(t)]
        return min(ds) if ds else None

    def pop_timer(self, t):
        t.cancelled = True   # consumed

    # ------------------------------------------------------ close and crash
    def _requeue_channel(self, ch):
        # unacked deliveries go back to (the front of) their queue in original order
        items = sorted(ch.unacked.items())
        ch.unacked.clear()
        byq = {}
        for tag, (q, msg, consumer) in items:
            consumer.unacked = 0
            byq.setdefault(q.name, []).append(msg)
        for qname, msgs in byq.items():
            q = self.queues.get(qname)
            if q is None:
                continue
            for msg in sorted(msgs, key=lambda m: m.uid, reverse=True):
                msg.redelivered = True
                q.messages.appendleft(msg)
                self.log("requeue", ch.owner, uid=msg.uid, queue=qname)
            # keep global publish order among requeued + waiting messages (RabbitMQ
            # requeues to the original position when possible)
            q.messages = collections.deque(sorted(q.messages, key=lambda m: m.uid))

    def _maybe_autodelete(self, q):
        if q.auto_delete and q.had_consumer and not q.consumers and q.name in self.queues:
            self.delete_queue(q.name)

    def delete_queue(self, name):
        q = self.queues.pop(name, None)
        if q is not None:
            for ex in self.exchanges.values():
                ex.bindings = [b for b in ex.bindings if b[0] != name]
            self.log("queue_deleted", None, queue=name)

    def close_channel(self, ch, reason=None):
        if not ch.is_open:
            return
        ch.is_open = False
        for tag, rec in list(ch.consumers.items()):
            if rec in rec.queue.consumers:
                rec.queue.consumers.remove(rec)
        self._requeue_channel(ch)
        for tag, rec in list(ch.consumers.items()):
            self._maybe_autodelete(rec.queue)
        ch.consumers.clear()
        self.pending_returns = collections.deque((c, m) for (c, m) in self.pending_returns if c is not ch)
        self.log("channel_closed", ch.owner, channel=ch.uid, reason=reason)

    def close_connection(self, conn, crashed=False):
        """Connection gone (clean close or process death)."""
        if conn not in self.connections:
            return
        self.connections.remove(conn)
        conn.is_open = False
        for ch in list(conn.channels):
            self.close_channel(ch, "connection closed")
        for name, q in list(self.queues.items()):
            if q.exclusive_owner is conn:
                self.delete_queue(name)
        for t in self.timers:
            if t.owner is conn and not t.cancelled:
                t.cancelled = True
        self.log("connection_closed", conn.owner, crashed=crashed)

    def crash_owner(self, owner):
        for conn in [c for c in self.connections if c.owner == owner]:
            self.close_connection(conn, crashed=True)

    # ----------------------------------------------------------------- misc
    def tap(self, exchange, pattern, fn):
        self.taps.append((exchange, pattern, fn))

    def queue_depths(self):
        return {n: len(q.messages) for n, q in self.queues.items() if q.messages}

    def total_unacked(self, owner=None):
        n = 0
        for conn in self.connections:
            if owner is not None and conn.owner != owner:
                continue
            for ch in conn.channels:
                n += len(ch.unacked)
        return n
