"""Property-based verification machinery for fadams/local-step-functions."""
