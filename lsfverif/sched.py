"""
Shared driver for the schedule-quantified checks (C02, C03, C05, C06, C09, C11):
run generated machines through a World under a generated schedule with monitors
attached, and compare with the reference interpreter where it is deterministic.
"""
import copy, json, traceback

from . import world as W
from . import harness as H
from . import monitors as M
from .ref import interp as ri

SM_ARN = W.sm_arn("m1")


def publish_raw_start(w, sm_arn, data, message_id=None, definition=None, execution_id=None):
    """A start event put on the shared queue the way the repo's launcher scripts do (Message(json) via a Producer)."""
    import pika
    ctx = {"StateMachine": {"Id": sm_arn}}
    if execution_id is not None:
        ctx["Execution"] = {"Id": execution_id}     # the client chooses the execution's ARN (and leaves the rest of the Execution object to the engine)
    if definition is not None:
        ctx["StateMachine"]["Definition"] = definition
    body = json.dumps({"data": data, "context": ctx})
    props = pika.BasicProperties(content_type="application/json", delivery_mode=2, message_id=message_id,
                                 headers={"x-amqp-0-9-1.subject": "asl_workflow_events"})
    w.harness_channel.basic_publish("", "asl_workflow_events", body, props)


def run_monitored(case, schedule=(), want=("lifecycle", "ack", "history", "surface"), seed=0, store="file", tick=1e-6,
                  starts=None, n_engines=1, max_steps=4000, tz="UTC", split=False, orphan_retention_ms=3000, probe=None, logging=None, rerun_same_name=False, dup_replies=0, midrun_reads=0, past_expiry=0, rest="asyncio", include_data=True, stragglers_past_expiry=False):
    """
    case: dict(definition, input, oracle, type).  starts: list of dict(mode="api"|"raw"|"raw-id", input=..., name=...).
    -> dict(fails={monitor: [(bucket, detail)]}, info={...}, world closed)
    """
    starts = starts or [{"mode": "api", "input": case["input"], "name": "e1"}]
    # orphaned replies (replies to cancelled tasks) are retained, unacknowledged, for orphaned_response_retention_ms:
    # a short retention keeps "quiescence" within a few virtual seconds (the production default is 10 minutes)
    extra_world = {"execution_ttl": past_expiry} if past_expiry else {}
    w = W.World(seed=seed, tz=tz, tick=tick, store=store, orphan_retention_ms=orphan_retention_ms, **extra_world)
    out = {"fails": {}, "info": {}}
    try:
        ids = ["A", "B", "C"][:n_engines]
        for i in ids:
            if rest == "blocking":
                w.add_engine(i, transport="blocking", rest="blocking")     # the Flask front end (served by the blocking transport)
            else:
                w.add_engine(i)
        H.install_workers(w, case["definition"], case.get("oracle") or {}, dup_replies=dup_replies)
        for nm_, d_ in (case.get("extra_machines") or {}).items():      # machines that the case's machine launches as child executions
            H.install_workers(w, d_, case.get("oracle") or {}, dup_replies=dup_replies)
            st, resp = w.create_state_machine(nm_, d_)
            if st != 200:
                raise RuntimeError("CreateStateMachine refused the child machine %s: %r" % (nm_, resp))
        extra_create = {}
        if logging:
            extra_create["loggingConfiguration"] = {"level": logging, "includeExecutionData": bool(include_data), "destinations": [{"cloudWatchLogsLogGroup": {"logGroupArn": "arn:aws:logs:local:0123456789:log-group:x"}}]}
        st, resp = w.create_state_machine("m1", case["definition"], type_=case.get("type", "STANDARD"), **extra_create)
        if st != 200:
            raise RuntimeError("CreateStateMachine refused a generated machine: %r" % (resp,))
        standard = case.get("type", "STANDARD") == "STANDARD"
        started = []
        mons = {}
        is_std = lambda arn: standard
        if "lifecycle" in want:
            mons["lifecycle"] = M.LifecycleMonitor(started, is_std)
        if "ack" in want:
            mons["ack"] = M.AckMonitor(started)
        if "history" in want:
            mons["history"] = M.HistoryMonitor(started, is_std)
        if "surface" in want:
            mons["surface"] = M.SurfaceMonitor(started, is_std)
        w.after_step.extend(m.after_step for m in mons.values())
        if "surface" in mons:
            w.on_notify.append(mons["surface"].at_publish)
        if midrun_reads:
            # a client polls GetExecutionHistory (reverse order first, as a 'latest events' view does) while the executions are running: reading changes nothing
            def poll(w_, label=None):
                if w_.steps % midrun_reads:
                    return
                for arn in list(started):
                    if not is_std(arn):
                        continue
                    st_r, rev = w_.history(arn, reverse=True)
                    st_f, fwd = w_.history(arn)
                    eh = M.engine_history(w_, arn)
                    if eh is None or st_r != 200 or st_f != 200:
                        continue
                    stored = json.loads(json.dumps(eh))
                    if fwd.get("events") != stored or rev.get("events") != list(reversed(stored)):
                        out["fails"].setdefault("history", []).append(("midrun-history-read-differs-from-store", "%s at step %d: forward ids %r, reverse ids %r, stored ids %r" % (
                            arn, w_.steps, [e.get("id") for e in fwd.get("events", [])][:12], [e.get("id") for e in rev.get("events", [])][:12], [e.get("id") for e in stored][:12])))
            w.after_step.append(poll)
        w.split_delivery = split
        raw_count = 0
        for k, s in enumerate(starts):
            if s["mode"] == "api":
                st, r = w.start_execution(SM_ARN, s["input"], name=s.get("name", "e%d" % (k + 1)), engine=ids[k % len(ids)])
                if st != 200:
                    raise RuntimeError("StartExecution refused: %r" % (r,))
                started.append(r["executionArn"])
            else:
                raw_count += 1
                publish_raw_start(w, SM_ARN, s["input"], message_id=("raw-%d" % k) if s["mode"] == "raw-id" else None,
                                  execution_id=(SM_ARN.replace(":stateMachine:", ":execution:") + ":chosen-%d" % k) if s["mode"] == "raw-arn" else None)
        n_before = len(started)
        def settled(w_):
            """Everything announced has ended and nothing but far-away timers (e.g. a leaked task time-out) remains."""
            b = w_.broker
            if b.pending_returns or w_.pushed or b.deliverable() or b.due_timers():
                return False
            arns = {((n.get("body") or {}).get("detail") or {}).get("executionArn") for n in w_.notifications}
            if len(arns) < len(starts) or any(w_.terminal(a) is None for a in arns):
                return False
            near = [t for t in b.live_timers() if not w_.is_heartbeat(t) and t.deadline - w_.clock.now <= 30]
            return not near
        # (one STANDARD execution only: with several executions the messages waiting when the first one ends belong to the others, and an EXPRESS execution leaves no
        #  record by which a message that arrives after its end could be recognised)
        if past_expiry and stragglers_past_expiry and len(starts) == 1 and standard:
            # stop at the first moment an execution has ended while messages of it are still waiting to be delivered (stragglers of a failed fan-out), let the expiry
            # back stop pass with those still queued (a slow consumer), then deliver them: nothing may end the execution a second time or change its record
            def ended_with_stragglers(w_):
                if settled(w_):
                    return True
                arns = {((n.get("body") or {}).get("detail") or {}).get("executionArn") for n in w_.notifications}
                return bool(w_.broker.deliverable()) and any(w_.terminal(a) is not None for a in arns if a)
            res = w.run(schedule, max_steps=max_steps, until=ended_with_stragglers)
            if res == "until" and not settled(w) and w.broker.deliverable():
                out["info"]["stragglers_held_past_expiry"] = len(w.broker.deliverable())
                w.advance_holding_deliveries(past_expiry + 130)
            res = w.run([], max_steps=max_steps, until=settled)
        else:
            res = w.run(schedule, max_steps=max_steps, until=settled)
        if res == "until":
            res = "quiescent"
        if past_expiry and res == "quiescent":
            # let the expiry back stop of the join state pass (execution_ttl, checked every 60 heartbeats) with the monitors attached: whatever was still being kept for an
            # execution that has ended is released then, and nothing else happens (no second terminal status, no change of the record, no new history)
            w.advance(past_expiry + 130)
            res = w.run([], max_steps=max_steps, until=settled)
            if res == "until":
                res = "quiescent"
        if rerun_same_name and res == "quiescent":
            # the same execution name is used again after the first run has ended (names are not checked for uniqueness)
            for m_ in mons.values():
                if hasattr(m_, "changes"):
                    m_.changes.clear()
            st, r = w.start_execution(SM_ARN, starts[0]["input"], name=starts[0].get("name", "e1"), engine=ids[0])
            if st == 200:
                res = w.run([], max_steps=max_steps, until=None)
        # executions started through raw events get their ARN from the engine: discover them from the notifications
        for n in w.notifications:
            arn = ((n.get("body") or {}).get("detail") or {}).get("executionArn")
            if arn and arn not in started:
                started.append(arn)
        out["info"].update(steps=w.steps, result=res, raw_started=len(started) - n_before, raw_expected=raw_count,
                           trace=w.trace[:60], engine_exceptions=list(w.engine_exceptions))
        if res != "quiescent":
            out["fails"].setdefault("lifecycle", []).append(("no-quiescence", "the world was still busy after %d steps" % w.steps))
        if raw_count and len(started) - n_before != raw_count:
            out["fails"].setdefault("lifecycle", []).append(("raw-start-lost", "%d raw start events produced %d executions" % (raw_count, len(started) - n_before)))
        for name, m in mons.items():
            fs = m.finish(w)
            if fs:
                out["fails"].setdefault(name, []).extend(fs)
        for ex in w.engine_exceptions:
            out["fails"].setdefault("exceptions", []).append(("engine-callback-exception:%s@%s" % (ex["type"], ex["where"].split(":")[0]), repr(ex)))
        out["info"]["started"] = list(started)
        out["info"]["outcomes"] = {a: H.detail_outcome(w.terminal(a)) for a in started}
        out["info"]["histories"] = {a: M.engine_history(w, a) for a in started} if "history" in want else {}
        out["info"]["requests"] = {fn: [dict(r) for r in wk.requests] for fn, wk in w.workers.items()}
        out["info"]["n_notifications"] = len(w.notifications)
        if probe is not None:
            out["info"]["probe"] = probe(w, list(started))
    finally:
        w.close()
    return out


def reference(case, input_value=None, name="e1", choose_failure=None):
    it = ri.Interp(case["definition"], copy.deepcopy(case.get("oracle") or {}), t0=1_700_000_000.0,
                   execution={"Name": name}, sm_arn=SM_ARN, choose_failure=choose_failure)
    res = it.run(copy.deepcopy(case["input"] if input_value is None else input_value))
    return it, res


CFG_SCHED = {"max_states": 7, "max_depth": 2, "max_branches": 3, "max_seq": 3, "misses": True, "fanout_heavy": True, "branch_fail_pct": 30}


def cases_with_schedules(cfg=None, max_sched=40, multi=True):
    """Hypothesis strategy: (machine case, schedule, starts)."""
    from hypothesis import strategies as st
    from .gen import machines as gm

    @st.composite
    def strat(draw):
        case = draw(gm.machine_cases(dict(cfg or CFG_SCHED)))
        if draw(st.integers(0, 11)) == 0:
            # a structured nested fan-out (Map in Map / Parallel in Map with MaxConcurrency blocks): rare in the free-form generator
            from .checks import c05
            k = draw(st.sampled_from(["map-of-map", "map-of-parallel", "parallel-with-map"]))
            c5 = {"kind": k, "n": draw(st.integers(2, 3)), "mc": draw(st.sampled_from([1, 1, 2, 0])), "inner_mc": draw(st.sampled_from([None, 1])), "two": draw(st.booleans())}
            d_, i_, o_ = c05.build(c5)
            case = {"definition": d_, "input": i_, "oracle": o_, "type": case["type"], "features": ["Map", "structured-nested-fanout"]}
        elif draw(st.integers(0, 11)) == 0:
            # a retried fan-out (the Map/Parallel state itself has the Retrier, its first attempts fail): rare in the free-form generator
            from .checks import c07
            n_fail = draw(st.integers(1, 2))
            c7 = {"kind": draw(st.sampled_from(["Map", "Map", "Parallel"])), "retry": [{"ErrorEquals": ["States.ALL"], "IntervalSeconds": 1, "MaxAttempts": draw(st.integers(1, 2)), "BackoffRate": 1.0}],
                  "catch": draw(st.sampled_from([[], [{"ErrorEquals": ["States.ALL"], "ResultPath": "$.err"}]])), "outcomes": ["ErrA"] * n_fail + ["ok"], "mc": draw(st.sampled_from([0, 1]))}
            d_, i_, o_ = c07.build(c7)
            case = {"definition": d_, "input": i_, "oracle": o_, "type": case["type"], "features": [c7["kind"], "Retry", "retried-fanout"]}
        sched = draw(st.lists(st.integers(0, 6), max_size=max_sched))
        # most steps canonical, so that deviations are isolated and shrink well
        if draw(st.booleans()):
            sched = [c if draw(st.integers(0, 2)) == 0 else 0 for c in sched]
        starts = [{"mode": "api", "input": case["input"], "name": "e1"}]
        # task behaviour that depends on the attempt number is keyed by (function, payload): concurrent executions of the
        # same machine would share the attempt counters, so such cases run a single execution
        attempt_dependent = any(len(seq) > 1 for f in case["oracle"].values() for seq in [f.get("seq", [])] + list((f.get("by_key") or {}).values()))
        if multi and not attempt_dependent:
            extra = draw(st.integers(0, 2))
            for k in range(extra):
                mode = draw(st.sampled_from(["api", "api", "raw-id", "raw", "raw-arn"]))
                inp = case["input"] if draw(st.booleans()) else draw(gm.inputs())
                starts.append({"mode": mode, "input": inp, "name": "x%d" % (k + 2)})
        return {"definition": case["definition"], "input": case["input"], "oracle": case["oracle"], "type": case["type"],
                "features": case["features"]}, sched, starts
    return strat()
