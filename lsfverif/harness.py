"""
Glue shared by the engine-level checks: run one generated case through a World
and through the reference interpreter and describe what was observed.
"""
import copy, json

from . import world as W
from .ref import interp as ri


def task_functions(definition):
    """All rpcmessage function names used by Task states at any depth."""
    out = []

    def walk(m):
        for s in (m.get("States") or {}).values():
            if not isinstance(s, dict):
                continue
            if s.get("Type") == "Task":
                r = s.get("Resource", "")
                if isinstance(r, str) and r.startswith("arn:aws:rpcmessage:"):
                    out.append(r.rsplit(":", 1)[-1])
                elif isinstance(r, str) and ":rpcmessage:invoke" in r and isinstance(s.get("Parameters"), dict) and isinstance(s["Parameters"].get("FunctionName"), str):
                    out.append(s["Parameters"]["FunctionName"].rsplit(":", 1)[-1])
            for b in s.get("Branches") or []:
                if isinstance(b, dict):
                    walk(b)
            for k in ("Iterator", "ItemProcessor"):
                if isinstance(s.get(k), dict):
                    walk(s[k])
    walk(definition)
    return sorted(set(out))


def install_workers(w, definition, oracle_spec, extra_fns=(), dup_replies=0):
    """dup_replies > 0: every worker reply is sent a second time that many seconds later (a worker that answers twice)."""
    oracle = ri.TaskOracle(copy.deepcopy(oracle_spec))
    w.oracle = oracle
    for fn in list(task_functions(definition)) + list(extra_fns):
        if fn in w.workers:
            continue

        def script(idx, payload, props, fn=fn):
            o = oracle.outcome(fn, payload)
            if o.get("never"):
                return []
            delay = o.get("delay", 0)
            if "err" in o:
                reply = {"errorType": o["err"], "errorMessage": o.get("msg", "")}
            else:
                reply = oracle.value_of(o, payload)
            return [(delay, reply)] + ([(delay + dup_replies, reply)] if dup_replies else [])
        w.add_worker(fn, script)


def detail_outcome(detail):
    """Normalise a notification detail / DescribeExecution record."""
    if detail is None:
        return None
    out = {"status": detail.get("status")}
    o = detail.get("output")
    if o is not None:
        try:
            out["output"] = json.loads(o)
        except Exception:
            out["output_raw"] = o
    if detail.get("error") is not None or "error" in detail:
        out["error"] = detail.get("error")
        out["cause"] = detail.get("cause")
    return out


def compare_outcome(expected, observed):
    """expected: ref Result; observed: detail_outcome(...).  -> list of (clause, detail)"""
    fails = []
    if observed is None:
        return [("no-terminal-status", "the execution never reported a terminal status; expected %r" % (expected,))]
    if observed["status"] != expected.status:
        return [("status:%s-expected-%s" % (observed["status"], expected.status),
                 "observed %r expected %r" % (observed, expected))]
    if expected.status == "SUCCEEDED":
        if "output" not in observed:
            fails.append(("output-missing", "observed %r" % (observed,)))
        elif not ri.values_match(observed["output"], expected.output):
            fails.append(("output", "observed output %s expected %s" % (json.dumps(observed["output"]), repr(expected.output))))
    else:
        if expected.error != (ri.ANY,) and observed.get("error") not in expected.error:
            fails.append(("error-name", "observed error %r expected one of %r" % (observed.get("error"), expected.error)))
        elif expected.exact_cause and expected.cause is not ri.ANY and expected.cause != "":
            oc = observed.get("cause")
            if expected.exact_cause == "contains":
                if not (isinstance(oc, str) and expected.cause in oc):
                    fails.append(("fail-cause", "observed cause %r does not contain the Fail state's Cause %r" % (oc, expected.cause)))
            elif oc != expected.cause:
                fails.append(("fail-cause", "observed cause %r expected %r" % (oc, expected.cause)))
    return fails


def has_inband_error(result):
    """Does any state input/output on the reference run carry a truthy top-level 'Error' member?"""
    def scan(trace):
        for ev in trace:
            if ev[0] in ("enter", "exit"):
                v = ev[2]
                if isinstance(v, dict) and v.get("Error"):
                    return True
            elif ev[0] == "fanout":
                if any(scan(bt) for bt in ev[2]):
                    return True
        return False
    if isinstance(result.output, dict) and result.output.get("Error"):
        return True
    return scan(result.trace)


def run_case(case, schedule=(), tz="UTC", tick=0.0, store="file", via_api=True, name="e1", sm_name="m1", seed=0):
    """Create the machine, start one execution, run to quiescence. -> (world, execution_arn, start response)"""
    w = W.World(seed=seed, tz=tz, tick=tick, store=store)
    w.add_engine("A")
    install_workers(w, case["definition"], case.get("oracle") or {})
    st, resp = w.create_state_machine(sm_name, case["definition"], type_=case.get("type", "STANDARD"))
    if st != 200:
        w.close()
        raise RuntimeError("CreateStateMachine refused a generated machine: %r" % (resp,))
    st, resp = w.start_execution(W.sm_arn(sm_name), case["input"], name=name)
    if st != 200:
        w.close()
        raise RuntimeError("StartExecution refused: %r" % (resp,))
    w.run(schedule)
    return w, resp["executionArn"], resp
