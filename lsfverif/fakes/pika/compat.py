from urllib.parse import urlparse, unquote, urlencode  # noqa
