"""pika.channel.Channel (callback style), backed by lsfverif.simbroker."""
import itertools
from . import spec, exceptions
from lsfverif import simbroker

_chan_uid = itertools.count(1)


class _CallbackManager(object):
    def __init__(self, channel):
        self._channel = channel

    def remove(self, prefix, key, callback_value=None, arguments=None):
        if key == "_on_channel_close":
            try:
                self._channel._on_close.remove(callback_value)
                return True
            except ValueError:
                return False
        return False


class Channel(object):
    def __init__(self, connection, channel_number, on_open_callback=None):
        self.connection = connection
        self.channel_number = channel_number
        self.uid = next(_chan_uid)
        self.broker = connection.broker
        self.owner = connection.owner
        self.is_open = True
        self.is_closed = False
        self.consumers = {}
        self.unacked = {}
        self.next_delivery_tag = 1
        self.prefetch_count = 0
        self._on_close = []
        self._on_return = []
        self._confirm_cb = None
        self._publish_seq = 0
        self.callbacks = _CallbackManager(self)
        connection.channels.append(self)
        self.broker.log("channel_open", self.owner, channel=self.uid)
        if on_open_callback is not None:
            on_open_callback(self)

    # ----------------------------------------------------------- plumbing
    def _op(self, fn, *a, **kw):
        """Run a broker operation; a protocol error closes the channel the way RabbitMQ does."""
        if not self.is_open:
            raise exceptions.ChannelWrongStateError("Channel is closed.")
        if not self.connection.is_open:
            raise exceptions.ConnectionClosed(0, "connection is closed")
        self.broker.count_op(self.owner)
        try:
            return True, fn(self, *a, **kw)
        except simbroker.BrokerClose as e:
            self._closed_by_broker(e.code, e.text)
            return False, None

    def _closed_by_broker(self, code, text):
        self.broker.close_channel(self, "%s %s" % (code, text))
        self.is_closed = True
        exc = exceptions.ChannelClosedByBroker(code, text)
        self._last_close = exc
        for cb in list(self._on_close):
            cb(self, exc)

    def add_on_close_callback(self, callback):
        self._on_close.append(callback)

    def add_on_return_callback(self, callback):
        self._on_return.append(callback)

    def add_on_cancel_callback(self, callback):
        pass

    def close(self, reply_code=0, reply_text="Normal shutdown"):
        if self.is_open:
            self.broker.close_channel(self, "closed by client")
            self.is_closed = True
            exc = exceptions.ChannelClosedByClient(reply_code, reply_text)
            for cb in list(self._on_close):
                cb(self, exc)
        if self in self.connection.channels:
            self.connection.channels.remove(self)

    # --------------------------------------------------------- operations
    def exchange_declare(self, exchange, exchange_type="direct", passive=False, durable=False, auto_delete=False,
                         internal=False, arguments=None, callback=None):
        ok, _ = self._op(self.broker.exchange_declare, exchange, exchange_type, passive, durable, auto_delete, internal, arguments)
        if ok and callback:
            callback(spec.Method(spec.Exchange.DeclareOk()))

    def queue_declare(self, queue, passive=False, durable=False, exclusive=False, auto_delete=False, arguments=None, callback=None):
        ok, res = self._op(self.broker.queue_declare, queue, passive, durable, exclusive, auto_delete, arguments)
        if ok:
            frame = spec.Method(spec.Queue.DeclareOk(res[0], res[1], res[2]))
            if callback:
                callback(frame)
            return frame

    def queue_bind(self, queue, exchange, routing_key=None, arguments=None, callback=None):
        ok, _ = self._op(self.broker.queue_bind, queue, exchange, routing_key, arguments)
        if ok and callback:
            callback(spec.Method(spec.Queue.BindOk()))

    def basic_qos(self, prefetch_size=0, prefetch_count=0, global_qos=False, callback=None):
        if not self.is_open:
            raise exceptions.ChannelWrongStateError("Channel is closed.")
        self.prefetch_count = int(prefetch_count)
        self.broker.log("basic_qos", self.owner, channel=self.uid, prefetch_count=prefetch_count)
        if callback:
            callback(spec.Method(spec.Basic.QosOk()))

    def basic_consume(self, queue, on_message_callback, auto_ack=False, exclusive=False, consumer_tag=None,
                      arguments=None, callback=None):
        ok, tag = self._op(self.broker.basic_consume, queue, on_message_callback, auto_ack, exclusive, consumer_tag, arguments)
        if ok:
            if callback:
                callback(spec.Method(spec.Basic.ConsumeOk(tag)))
            return tag

    def basic_cancel(self, consumer_tag="", callback=None):
        self.broker.basic_cancel(self, consumer_tag)
        if callback:
            callback(spec.Method(None))

    def basic_publish(self, exchange, routing_key, body, properties=None, mandatory=False):
        if properties is None:
            properties = spec.BasicProperties()
        ok, msg = self._op(self.broker.basic_publish, exchange, routing_key, body, properties, mandatory)
        if ok:
            self._publish_seq += 1
            if self._confirm_cb is not None:
                seq, cb = self._publish_seq, self._confirm_cb
                self.connection._soon(lambda: cb(spec.Method(spec.Basic.Ack(seq, False))))

    def basic_ack(self, delivery_tag=0, multiple=False):
        self._op(self.broker.basic_ack, delivery_tag, multiple)

    def basic_nack(self, delivery_tag=0, multiple=False, requeue=True):
        raise NotImplementedError("basic_nack is not used by the code under test")

    def basic_recover(self, requeue=False, callback=None):
        self._op(self.broker.basic_recover, requeue)
        if callback:
            callback(spec.Method(spec.Basic.RecoverOk()))

    def confirm_delivery(self, ack_nack_callback=None, callback=None):
        self._confirm_cb = ack_nack_callback
        if callback:
            callback(spec.Method(spec.Confirm.SelectOk()))

    # -------------------------------------------------- broker -> client
    def _deliver(self, consumer, delivery_tag, msg):
        method = spec.Basic.Deliver(consumer.tag, delivery_tag, msg.redelivered, msg.exchange, msg.routing_key)
        consumer.callback(self, method, msg.props, msg.body)

    def _return(self, msg):
        method = spec.Basic.Return(312, "NO_ROUTE", msg.exchange, msg.routing_key)
        for cb in list(self._on_return):
            cb(self, method, msg.props, msg.body)
