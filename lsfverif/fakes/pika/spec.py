class BasicProperties(object):
    FIELDS = ("content_type", "content_encoding", "headers", "delivery_mode", "priority", "correlation_id",
              "reply_to", "expiration", "message_id", "timestamp", "type", "user_id", "app_id", "cluster_id")

    def __init__(self, content_type=None, content_encoding=None, headers=None, delivery_mode=None, priority=None,
                 correlation_id=None, reply_to=None, expiration=None, message_id=None, timestamp=None, type=None,
                 user_id=None, app_id=None, cluster_id=None):
        self.content_type = content_type
        self.content_encoding = content_encoding
        self.headers = headers
        self.delivery_mode = getattr(delivery_mode, "value", delivery_mode)
        self.priority = priority
        self.correlation_id = correlation_id
        self.reply_to = reply_to
        self.expiration = expiration
        self.message_id = message_id
        self.timestamp = timestamp
        self.type = type
        self.user_id = user_id
        self.app_id = app_id
        self.cluster_id = cluster_id

    def as_dict(self):
        return {k: getattr(self, k) for k in self.FIELDS}

    def __repr__(self):
        return "<BasicProperties %r>" % ({k: v for k, v in self.as_dict().items() if v is not None},)


class Method(object):
    def __init__(self, method):
        self.method = method


class Basic(object):
    class Deliver(object):
        NAME = "Basic.Deliver"

        def __init__(self, consumer_tag=None, delivery_tag=None, redelivered=False, exchange=None, routing_key=None):
            self.consumer_tag = consumer_tag
            self.delivery_tag = delivery_tag
            self.redelivered = redelivered
            self.exchange = exchange
            self.routing_key = routing_key

    class Return(object):
        NAME = "Basic.Return"

        def __init__(self, reply_code=312, reply_text="NO_ROUTE", exchange=None, routing_key=None):
            self.reply_code = reply_code
            self.reply_text = reply_text
            self.exchange = exchange
            self.routing_key = routing_key

    class Ack(object):
        NAME = "Basic.Ack"

        def __init__(self, delivery_tag=0, multiple=False):
            self.delivery_tag = delivery_tag
            self.multiple = multiple

    class Nack(object):
        NAME = "Basic.Nack"

        def __init__(self, delivery_tag=0, multiple=False, requeue=True):
            self.delivery_tag = delivery_tag
            self.multiple = multiple
            self.requeue = requeue

    class ConsumeOk(object):
        def __init__(self, consumer_tag):
            self.consumer_tag = consumer_tag

    class QosOk(object):
        pass

    class RecoverOk(object):
        pass


class Queue(object):
    class DeclareOk(object):
        def __init__(self, queue, message_count=0, consumer_count=0):
            self.queue = queue
            self.message_count = message_count
            self.consumer_count = consumer_count

    class BindOk(object):
        pass


class Exchange(object):
    class DeclareOk(object):
        pass


class Confirm(object):
    class SelectOk(object):
        pass
