"""
Fake `pika` for the verification harness: the client-side API surface that
fadams/local-step-functions uses, backed by lsfverif.simbroker (a deterministic
in-process broker model).  Placed first on sys.path by lsfverif.env.setup_paths.
"""
__version__ = "1.3.2-lsfverif-fake"
from . import compat, spec, exceptions, channel, connection, adapters
from .spec import BasicProperties
from .connection import URLParameters, ConnectionParameters
from .adapters.blocking_connection import BlockingConnection
from .adapters.asyncio_connection import AsyncioConnection
