from urllib.parse import urlparse, parse_qs


class Parameters(object):
    DEFAULT_HOST = "localhost"
    DEFAULT_PORT = 5672


class ConnectionParameters(Parameters):
    def __init__(self, host="localhost", port=5672, virtual_host="/", connection_attempts=1, retry_delay=2.0, **kw):
        self.host, self.port, self.virtual_host = host, port, virtual_host
        self.connection_attempts, self.retry_delay = connection_attempts, retry_delay


class URLParameters(Parameters):
    def __init__(self, url):
        p = urlparse(url)
        self.url = url
        self.host = p.hostname or "localhost"
        self.port = p.port or 5672
        self.virtual_host = "/"
        q = parse_qs(p.query)
        self.connection_attempts = int(q.get("connection_attempts", ["1"])[0])
        self.retry_delay = float(q.get("retry_delay", ["2.0"])[0])
        self.heartbeat = q.get("heartbeat", [None])[0]
