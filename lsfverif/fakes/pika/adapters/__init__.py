from . import asyncio_connection, blocking_connection  # noqa
from .asyncio_connection import AsyncioConnection  # noqa
from .blocking_connection import BlockingConnection  # noqa
