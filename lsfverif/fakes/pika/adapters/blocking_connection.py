"""pika.BlockingConnection / BlockingChannel on the simulated broker."""
from .. import exceptions, spec
from .asyncio_connection import BaseSimConnection


class StartConsuming(BaseException):
    """Raised by BlockingChannel.start_consuming(): the real call blocks inside
    pika's I/O loop; in the harness control returns to the scheduler instead."""


class BlockingChannel(object):
    def __init__(self, impl, connection):
        self._impl = impl
        self.connection = connection

    @property
    def is_open(self):
        return self._impl.is_open

    @property
    def channel_number(self):
        return self._impl.channel_number

    def _check(self):
        exc = getattr(self._impl, "_last_close", None)
        if exc is not None:
            self._impl._last_close = None
            raise exc

    def _call(self, name, *a, **kw):
        self._impl._last_close = None
        res = getattr(self._impl, name)(*a, **kw)
        self._check()
        return res

    def close(self, reply_code=0, reply_text="Normal shutdown"):
        self._impl.close(reply_code, reply_text)

    def add_on_return_callback(self, callback):
        self._impl.add_on_return_callback(callback)

    def exchange_declare(self, exchange, exchange_type="direct", passive=False, durable=False, auto_delete=False,
                         internal=False, arguments=None):
        return self._call("exchange_declare", exchange, exchange_type, passive, durable, auto_delete, internal, arguments)

    def queue_declare(self, queue, passive=False, durable=False, exclusive=False, auto_delete=False, arguments=None):
        return self._call("queue_declare", queue, passive, durable, exclusive, auto_delete, arguments)

    def queue_bind(self, queue, exchange, routing_key=None, arguments=None):
        return self._call("queue_bind", queue, exchange, routing_key, arguments)

    def basic_qos(self, prefetch_size=0, prefetch_count=0, global_qos=False):
        return self._call("basic_qos", prefetch_size, prefetch_count, global_qos)

    def basic_consume(self, queue, on_message_callback, auto_ack=False, exclusive=False, consumer_tag=None, arguments=None):
        me = self

        def cb(ch, method, properties, body):
            on_message_callback(me, method, properties, body)
        return self._call("basic_consume", queue, cb, auto_ack, exclusive, consumer_tag, arguments)

    def basic_publish(self, exchange, routing_key, body, properties=None, mandatory=False):
        return self._call("basic_publish", exchange, routing_key, body, properties, mandatory)

    def basic_ack(self, delivery_tag=0, multiple=False):
        return self._call("basic_ack", delivery_tag, multiple)

    def basic_recover(self, requeue=False):
        return self._call("basic_recover", requeue)

    def confirm_delivery(self):
        self._impl.confirm_delivery(None)

    def start_consuming(self):
        raise StartConsuming()

    def stop_consuming(self, consumer_tag=None):
        pass


class BlockingConnection(BaseSimConnection):
    def __init__(self, parameters=None, _impl_class=None):
        BaseSimConnection.__init__(self, parameters)

    def channel(self, channel_number=None):
        return BlockingChannel(self._new_channel(None), self)

    def call_later(self, delay, callback):
        return self.broker.call_later(self, delay, callback)

    def remove_timeout(self, timeout_id):
        self.broker.cancel_timer(timeout_id)

    def add_callback_threadsafe(self, callback):
        callback()

    def process_data_events(self, time_limit=0):
        pass

    def sleep(self, duration):
        pass
