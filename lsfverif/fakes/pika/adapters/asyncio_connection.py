"""pika.adapters.asyncio_connection.AsyncioConnection on the simulated broker."""
from .. import exceptions
from ..channel import Channel
from lsfverif import simbroker


class BaseSimConnection(object):
    def __init__(self, parameters):
        self.params = parameters
        self.broker = simbroker.current()
        self.owner = self.broker.owner_label
        self.channels = []
        self.is_open = False
        self._on_close = []
        self._on_open_error = []
        self._channel_numbers = 0
        refusal = self.broker.connect_refusal(self) if hasattr(self.broker, "connect_refusal") else None
        if refusal:
            raise refusal
        self.is_open = True
        self.is_closed = False
        self.broker.connections.append(self)
        self.broker.log("connection_open", self.owner)

    def _soon(self, cb):
        # zero-delay callback on the connection's ioloop
        self.broker.call_later(self, 0, cb, label="soon")

    def _new_channel(self, on_open_callback=None):
        if not self.is_open:
            raise exceptions.ConnectionClosed(0, "connection is closed")
        self._channel_numbers += 1
        return Channel(self, self._channel_numbers, on_open_callback)

    def add_on_close_callback(self, cb):
        self._on_close.append(cb)

    def add_on_open_error_callback(self, cb, remove_default=True):
        self._on_open_error.append(cb)

    def _closed(self, exc):
        for cb in list(self._on_close):
            cb(self, exc)

    def close(self, reply_code=200, reply_text="Normal shutdown"):
        if self.is_open:
            self.broker.close_connection(self)
            self.is_closed = True
            self._closed(exceptions.ConnectionClosedByClient(reply_code, reply_text))


class AsyncioConnection(BaseSimConnection):
    def __init__(self, parameters=None, on_open_callback=None, on_open_error_callback=None,
                 on_close_callback=None, custom_ioloop=None, internal_connection_workflow=True):
        BaseSimConnection.__init__(self, parameters)
        if on_close_callback:
            self._on_close.append(on_close_callback)
        if on_open_callback:
            on_open_callback(self)

    def channel(self, channel_number=None, on_open_callback=None):
        return self._new_channel(on_open_callback)

    def _adapter_call_later(self, delay, callback):
        return self.broker.call_later(self, delay, callback)

    def _adapter_remove_timeout(self, timeout_id):
        self.broker.cancel_timer(timeout_id)

    def _adapter_add_callback_threadsafe(self, callback):
        # the asyncio adapter schedules the callback on the loop; the harness is
        # single-threaded, so the callback runs at once (nothing can interleave)
        callback()

    @property
    def ioloop(self):
        import asyncio
        return asyncio.get_event_loop()
