"""
Stand-in for the two pottery containers the engine uses (RedisDict, RedisList) on top of the
redis stand-in: a Redis hash / list whose fields and values are JSON-encoded, created lazily,
with pottery's KeyExistsError when initial data is given for an existing key.
"""
import json
from collections.abc import MutableMapping, MutableSequence


class KeyExistsError(Exception):
    pass


def _enc(v):
    return json.dumps(v, sort_keys=True)


def _dec(b):
    return json.loads(b.decode("utf-8") if isinstance(b, bytes) else b)


class _Base:
    def __init__(self, redis=None, key=None):
        if redis is None or key is None:
            raise TypeError("the stand-in needs explicit redis= and key=")
        self.redis = redis
        self.key = key


class RedisDict(_Base, MutableMapping):
    def __init__(self, arg=(), *, redis=None, key=None, **kwargs):
        _Base.__init__(self, redis, key)
        data = dict(arg, **kwargs) if (arg or kwargs) else {}
        if data:
            if self.redis.exists(self.key):
                raise KeyExistsError(self.redis, self.key)
            self.redis.hset(self.key, mapping={_enc(k): _enc(v) for k, v in data.items()})

    def __getitem__(self, k):
        v = self.redis.hget(self.key, _enc(k))
        if v is None:
            raise KeyError(k)
        return _dec(v)

    def __setitem__(self, k, v):
        self.redis.hset(self.key, _enc(k), _enc(v))

    def __delitem__(self, k):
        if not self.redis.hdel(self.key, _enc(k)):
            raise KeyError(k)

    def __iter__(self):
        return iter([_dec(k) for k in self.redis.hgetall(self.key)])

    def __len__(self):
        return self.redis.hlen(self.key)

    def __contains__(self, k):
        try:
            return bool(self.redis.hexists(self.key, _enc(k)))
        except TypeError:
            return False

    def to_dict(self):
        return {_dec(k): _dec(v) for k, v in self.redis.hgetall(self.key).items()}

    def __eq__(self, other):
        if isinstance(other, (RedisDict, dict)):
            return self.to_dict() == (other.to_dict() if isinstance(other, RedisDict) else other)
        return NotImplemented

    def __repr__(self):
        return "RedisDict%r" % (self.to_dict(),)


class RedisList(_Base, MutableSequence):
    def __init__(self, iterable=(), *, redis=None, key=None):
        _Base.__init__(self, redis, key)
        items = list(iterable)
        if items:
            if self.redis.exists(self.key):
                raise KeyExistsError(self.redis, self.key)
            self.redis.rpush(self.key, *[_enc(v) for v in items])

    def __len__(self):
        return self.redis.llen(self.key)

    def __getitem__(self, i):
        if isinstance(i, slice):
            return [_dec(v) for v in self.redis.lrange(self.key, 0, -1)][i]
        n = len(self)
        if i < -n or i >= n:
            raise IndexError("list index out of range")
        return _dec(self.redis.lindex(self.key, i))

    def __setitem__(self, i, v):
        if isinstance(i, slice):
            cur = [_dec(x) for x in self.redis.lrange(self.key, 0, -1)]
            cur[i] = list(v)
            self.redis.delete(self.key)
            if cur:
                self.redis.rpush(self.key, *[_enc(x) for x in cur])
            return
        n = len(self)
        if i < -n or i >= n:
            raise IndexError("list assignment index out of range")
        self.redis.lset(self.key, i, _enc(v))

    def __delitem__(self, i):
        cur = [_dec(x) for x in self.redis.lrange(self.key, 0, -1)]
        del cur[i]
        self.redis.delete(self.key)
        if cur:
            self.redis.rpush(self.key, *[_enc(x) for x in cur])

    def insert(self, i, v):
        cur = [_dec(x) for x in self.redis.lrange(self.key, 0, -1)]
        cur.insert(i, v)
        self.redis.delete(self.key)
        self.redis.rpush(self.key, *[_enc(x) for x in cur])

    def append(self, v):
        self.redis.rpush(self.key, _enc(v))

    def extend(self, values):
        values = list(values)
        if values:
            self.redis.rpush(self.key, *[_enc(v) for v in values])

    def to_list(self):
        return [_dec(v) for v in self.redis.lrange(self.key, 0, -1)]

    def __iter__(self):
        return iter(self.to_list())

    def __eq__(self, other):
        if isinstance(other, (RedisList, list)):
            return self.to_list() == (other.to_list() if isinstance(other, RedisList) else other)
        return NotImplemented

    def __repr__(self):
        return "RedisList%r" % (self.to_list(),)
