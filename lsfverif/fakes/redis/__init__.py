"""
A small in-process stand-in for redis-py on top of a simulated Redis server,
covering what asl_workflow_engine.store (and the pottery stand-in) use.

Fidelity notes (see DESIGN.md, C20):
- one keyspace per URL (host:port/db); keys are str, values are bytes;
- hashes, lists and strings, DEL / EXISTS / EXPIRE / TTL / SCAN MATCH / INFO / PING / PUBLISH;
- lazily applied expiry against a settable clock (server.now);
- RESP2 server-assisted client-side caching in REDIRECT mode: a read through a connection with
  CLIENT TRACKING ON remembers (key, client); the first later modification, deletion or expiry of
  that key queues ONE invalidation message for the redirect client and forgets the key;
  modifications by the tracking client itself are reported too (no NOLOOP);
- invalidation / pub-sub messages are queued at the server and handed to the subscriber's handler
  only when the harness calls server.deliver(...) (or immediately with server.auto_deliver = True),
  so that every placement of the invalidation between operations can be generated;
- SCAN returns keys in batches of server.scan_batch with integer cursors (0 terminates).
"""
import fnmatch, itertools, threading


class RedisError(Exception):
    pass


class ConnectionError(RedisError):
    pass


class ResponseError(RedisError):
    pass


class Server:
    def __init__(self, name):
        self.name = name
        self.data = {}          # key -> ("hash", dict) | ("list", list) | ("string", bytes)
        self.expiry = {}        # key -> deadline
        self._now = 0.0
        self.clock = None       # optional external clock (object with .now), e.g. the World's virtual clock
        self.version = "6.2.6"
        self.client_ids = itertools.count(3)
        self.tracking = {}      # key -> set(client id) that read it with tracking on
        self.clients = {}       # client id -> dict(tracking=bool, redirect=id)
        self.subscribers = {}   # channel -> list of PubSub
        self.pending = []       # (pubsub, message) waiting to be delivered
        self.auto_deliver = False
        self.scan_batch = 3
        self.oplog = []
        self.available = True
        self.lock = threading.RLock()

    @property
    def now(self):
        return self.clock.now if self.clock is not None else self._now

    @now.setter
    def now(self, v):
        self._now = v

    # ------------------------------------------------------------ expiry
    def _expire_due(self):
        for k in [k for k, d in self.expiry.items() if d <= self.now]:
            self.expiry.pop(k, None)
            if k in self.data:
                del self.data[k]
                self._modified(k, None)

    def advance(self, seconds):
        self._now += seconds
        self._expire_due()

    # ---------------------------------------------------------- tracking
    def _read(self, key, client):
        c = self.clients.get(client)
        if c and c["tracking"]:
            self.tracking.setdefault(key, set()).add(client)

    def _modified(self, key, client):
        watchers = self.tracking.pop(key, None)
        if not watchers:
            return
        for cid in sorted(watchers):
            c = self.clients.get(cid)
            if not c or not c["tracking"]:
                continue
            target = c["redirect"]
            for ps in self.subscribers.get("__redis__:invalidate", []):
                if ps.client_id == target:
                    self._queue(ps, {"type": "message", "pattern": None, "channel": b"__redis__:invalidate", "data": [key.encode("utf-8")]})

    def _queue(self, ps, message):
        if ps.handlers.get(message["channel"].decode("utf-8")) is None:
            ps._receive(message)        # nobody's handler: goes straight to the listener's inbox (used to wake the listener thread up)
            return
        self.pending.append((ps, message))
        if self.auto_deliver:
            self.deliver()

    def deliver(self, n=None):
        """Hand the first n (default all) queued messages to their subscribers."""
        k = 0
        while self.pending and (n is None or k < n):
            ps, message = self.pending.pop(0)
            ps._receive(message)
            k += 1
        return k

    def publish(self, channel, data):
        subs = list(self.subscribers.get(channel, []))
        for ps in subs:
            self._queue(ps, {"type": "message", "pattern": None, "channel": channel.encode("utf-8"), "data": data if isinstance(data, bytes) else str(data).encode("utf-8")})
        return len(subs)


SERVERS = {}


def server_for(url="redis://localhost:6379"):
    base = url.split("?")[0]
    if base not in SERVERS:
        SERVERS[base] = Server(base)
    return SERVERS[base]


def reset():
    SERVERS.clear()


class ConnectionPool:
    def __init__(self, server):
        self.server = server


def _b(v):
    if isinstance(v, bytes):
        return v
    if isinstance(v, (int, float)) and not isinstance(v, bool):
        return repr(v).encode("utf-8")
    if isinstance(v, str):
        return v.encode("utf-8")
    raise RedisError("Invalid input of type: %r" % type(v).__name__)


def _k(v):
    return v.decode("utf-8") if isinstance(v, bytes) else str(v)


class PubSub:
    def __init__(self, redis, ignore_subscribe_messages=False):
        self.redis = redis
        self.server = redis.server
        self.client_id = redis._id        # the logical connection of the Redis object it was created from
        self.handlers = {}
        self.inbox = []
        self.cond = threading.Condition()
        self.closed = False

    def subscribe(self, *channels, **handlers):
        for ch in channels:
            self.handlers[ch] = None
            self._register(ch)
        for ch, h in handlers.items():
            self.handlers[ch] = h
            self._register(ch)

    def _register(self, ch):
        lst = self.server.subscribers.setdefault(ch, [])
        if self not in lst:
            lst.append(self)

    def _receive(self, message):
        ch = message["channel"].decode("utf-8")
        h = self.handlers.get(ch)
        if h is not None:
            h(message)
        else:
            with self.cond:
                self.inbox.append(message)
                self.cond.notify_all()

    def listen(self):
        while True:
            with self.cond:
                while not self.inbox and not self.closed:
                    self.cond.wait(0.05)
                if self.closed and not self.inbox:
                    return
                m = self.inbox.pop(0)
            yield m

    def get_message(self, timeout=0):
        with self.cond:
            return self.inbox.pop(0) if self.inbox else None

    def close(self):
        for lst in self.server.subscribers.values():
            if self in lst:
                lst.remove(self)
        with self.cond:
            self.closed = True
            self.cond.notify_all()


class Redis:
    def __init__(self, connection_pool=None, server=None, **kw):
        self.server = connection_pool.server if connection_pool is not None else (server or server_for())
        self.connection_pool = connection_pool or ConnectionPool(self.server)
        self._id = next(self.server.client_ids)
        self.server.clients[self._id] = {"tracking": False, "redirect": None}
        self._pubsubs = []

    @classmethod
    def from_url(cls, url, **kw):
        return cls(server=server_for(url))

    # ---------------------------------------------------------- plumbing
    def _check(self):
        if not self.server.available:
            raise ConnectionError("Error 111 connecting to %s. Connection refused." % self.server.name)
        self.server._expire_due()

    def ping(self):
        self._check()
        return True

    def info(self, section=None):
        self._check()
        return {"redis_version": self.server.version}

    def client_id(self):
        return self._id

    def close(self):
        for ps in self._pubsubs:
            ps.close()

    def pubsub(self, **kw):
        # redis-py takes a connection from the pool for the subscription: the one that answered this object's earlier commands
        # (client_id() included) and was released back. It keeps that connection, so this object's next command runs on a new one.
        ps = PubSub(self, **kw)
        ps.client_id = self._id
        self._pubsubs.append(ps)
        self._id = next(self.server.client_ids)
        self.server.clients[self._id] = {"tracking": False, "redirect": None}
        return ps

    def execute_command(self, *args):
        self._check()
        cmd = [str(a).upper() if i < 3 else a for i, a in enumerate(args)]
        if cmd[:3] == ["CLIENT", "TRACKING", "ON"]:
            redirect = None
            if len(args) >= 5 and str(args[3]).upper() == "REDIRECT":
                redirect = int(args[4])
                if redirect not in self.server.clients:
                    raise ResponseError("The client ID you want redirect to does not exist")
            self.server.clients[self._id].update(tracking=True, redirect=redirect)
            return b"OK"
        if cmd[:3] == ["CLIENT", "TRACKING", "OFF"]:
            self.server.clients[self._id].update(tracking=False, redirect=None)
            for watchers in self.server.tracking.values():
                watchers.discard(self._id)
            return b"OK"
        raise ResponseError("unknown command %r" % (args,))

    def publish(self, channel, message):
        self._check()
        return self.server.publish(channel, message)

    # ------------------------------------------------------------ generic
    def delete(self, *keys):
        self._check()
        n = 0
        for key in keys:
            key = _k(key)
            if key in self.server.data:
                del self.server.data[key]
                self.server.expiry.pop(key, None)
                self.server._modified(key, self._id)
                n += 1
        return n

    def exists(self, *keys):
        self._check()
        return sum(1 for k in keys if _k(k) in self.server.data)

    def expire(self, key, seconds):
        self._check()
        key = _k(key)
        if key not in self.server.data:
            return False
        self.server.expiry[key] = self.server.now + float(seconds)
        return True

    def ttl(self, key):
        self._check()
        key = _k(key)
        if key not in self.server.data:
            return -2
        if key not in self.server.expiry:
            return -1
        return int(round(self.server.expiry[key] - self.server.now))

    def persist(self, key):
        return self.server.expiry.pop(_k(key), None) is not None

    def type(self, key):
        self._check()
        v = self.server.data.get(_k(key))
        return (v[0] if v else "none").encode("utf-8")

    def keys(self, pattern="*"):
        self._check()
        return [k.encode("utf-8") for k in sorted(self.server.data) if fnmatch.fnmatchcase(k, pattern)]

    def scan(self, cursor=0, match=None, count=None):
        self._check()
        cursor = int(cursor)
        keys = sorted(self.server.data)
        batch = keys[cursor:cursor + self.server.scan_batch]
        nxt = cursor + self.server.scan_batch
        if nxt >= len(keys):
            nxt = 0
        out = [k.encode("utf-8") for k in batch if match is None or fnmatch.fnmatchcase(k, match)]
        return nxt, out

    def flushdb(self):
        for k in list(self.server.data):
            self.delete(k)

    # ------------------------------------------------------------- string
    def get(self, key):
        self._check()
        key = _k(key)
        self.server._read(key, self._id)
        v = self.server.data.get(key)
        if v is None:
            return None
        if v[0] != "string":
            raise ResponseError("WRONGTYPE Operation against a key holding the wrong kind of value")
        return v[1]

    def set(self, key, value):
        self._check()
        key = _k(key)
        self.server.data[key] = ("string", _b(value))
        self.server.expiry.pop(key, None)
        self.server._modified(key, self._id)
        return True

    # --------------------------------------------------------------- hash
    def _hash(self, key, create=False):
        v = self.server.data.get(key)
        if v is None:
            if not create:
                return None
            v = ("hash", {})
            self.server.data[key] = v
        if v[0] != "hash":
            raise ResponseError("WRONGTYPE Operation against a key holding the wrong kind of value")
        return v[1]

    def hset(self, key, field=None, value=None, mapping=None):
        self._check()
        key = _k(key)
        items = []
        if field is not None:
            items.append((field, value))
        if mapping:
            items += list(mapping.items())
        if not items:
            raise RedisError("'hset' with no key value pairs")
        h = self._hash(key, create=True)
        n = 0
        for f, v in items:
            f = _b(f)
            if f not in h:
                n += 1
            h[f] = _b(v)
        self.server._modified(key, self._id)
        return n

    def hget(self, key, field):
        self._check()
        key = _k(key)
        self.server._read(key, self._id)
        h = self._hash(key)
        return None if h is None else h.get(_b(field))

    def hgetall(self, key):
        self._check()
        key = _k(key)
        self.server._read(key, self._id)
        h = self._hash(key)
        return dict(h) if h else {}

    def hkeys(self, key):
        return list(self.hgetall(key))

    def hlen(self, key):
        self._check()
        key = _k(key)
        self.server._read(key, self._id)
        h = self._hash(key)
        return len(h) if h else 0

    def hexists(self, key, field):
        self._check()
        key = _k(key)
        self.server._read(key, self._id)
        h = self._hash(key)
        return bool(h) and _b(field) in h

    def hdel(self, key, *fields):
        self._check()
        key = _k(key)
        h = self._hash(key)
        if not h:
            return 0
        n = 0
        for f in fields:
            if h.pop(_b(f), None) is not None:
                n += 1
        if n:
            if not h:
                del self.server.data[key]       # Redis removes empty hashes
                self.server.expiry.pop(key, None)
            self.server._modified(key, self._id)
        return n

    # --------------------------------------------------------------- list
    def _list(self, key, create=False):
        v = self.server.data.get(key)
        if v is None:
            if not create:
                return None
            v = ("list", [])
            self.server.data[key] = v
        if v[0] != "list":
            raise ResponseError("WRONGTYPE Operation against a key holding the wrong kind of value")
        return v[1]

    def rpush(self, key, *values):
        self._check()
        key = _k(key)
        if not values:
            raise ResponseError("wrong number of arguments for 'rpush' command")
        l = self._list(key, create=True)
        l.extend(_b(v) for v in values)
        self.server._modified(key, self._id)
        return len(l)

    def lpush(self, key, *values):
        self._check()
        key = _k(key)
        l = self._list(key, create=True)
        for v in values:
            l.insert(0, _b(v))
        self.server._modified(key, self._id)
        return len(l)

    def llen(self, key):
        self._check()
        key = _k(key)
        self.server._read(key, self._id)
        l = self._list(key)
        return len(l) if l else 0

    def lrange(self, key, start, end):
        self._check()
        key = _k(key)
        self.server._read(key, self._id)
        l = self._list(key) or []
        n = len(l)
        if start < 0:
            start = max(n + start, 0)
        if end < 0:
            end = n + end
        return list(l[start:end + 1])

    def lindex(self, key, index):
        self._check()
        key = _k(key)
        self.server._read(key, self._id)
        l = self._list(key) or []
        try:
            return l[index]
        except IndexError:
            return None

    def lset(self, key, index, value):
        self._check()
        key = _k(key)
        l = self._list(key)
        if l is None:
            raise ResponseError("no such key")
        try:
            l[index] = _b(value)
        except IndexError:
            raise ResponseError("index out of range")
        self.server._modified(key, self._id)
        return True

    def lrem(self, key, count, value):
        self._check()
        key = _k(key)
        l = self._list(key)
        if not l:
            return 0
        value = _b(value)
        n = 0
        i = 0
        while i < len(l) and (count == 0 or n < abs(count)):
            if l[i] == value:
                del l[i]
                n += 1
            else:
                i += 1
        if n:
            if not l:
                del self.server.data[key]
                self.server.expiry.pop(key, None)
            self.server._modified(key, self._id)
        return n

    def ltrim(self, key, start, end):
        self._check()
        key = _k(key)
        l = self._list(key)
        if l is None:
            return True
        n = len(l)
        if start < 0:
            start = max(n + start, 0)
        if end < 0:
            end = n + end
        l[:] = l[start:end + 1]
        if not l:
            del self.server.data[key]
            self.server.expiry.pop(key, None)
        self.server._modified(key, self._id)
        return True


StrictRedis = Redis
