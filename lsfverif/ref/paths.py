"""
Reference semantics for *definite* paths and Reference Paths (States Language
"Paths" and "Reference Paths" sections).  Written from the specification; shares
no code or regular expression with the repository.

Grammar handled (everything else is out of scope of the checks):

    path   := '$' step*
    step   := '.' ident | "['" chars "']" | '[' digits ']'
    ident  := [A-Za-z_][A-Za-z0-9_]*
    chars  := any characters except "'" and "\\"
"""
import copy


class Missing(Exception):
    """A read path that addresses nothing."""


class Unplaceable(Exception):
    """A Reference Path that cannot be placed into the given document."""


class BadPath(Exception):
    pass


_IDENT0 = "ABCDEFGHIJKLMNOPQRSTUVWXYZabcdefghijklmnopqrstuvwxyz_"
_IDENT = _IDENT0 + "0123456789"


def parse(path):
    """'$.a[0]['b c']' -> ['a', 0, 'b c'] (str = member name, int = index)."""
    if not isinstance(path, str) or not path.startswith("$"):
        raise BadPath(path)
    i, n, steps = 1, len(path), []
    while i < n:
        c = path[i]
        if c == ".":
            j = i + 1
            if j >= n or path[j] not in _IDENT0:
                raise BadPath(path)
            while j < n and path[j] in _IDENT:
                j += 1
            steps.append(path[i + 1:j])
            i = j
        elif c == "[":
            if path.startswith("['", i):
                j = path.find("']", i + 2)
                if j < 0:
                    raise BadPath(path)
                name = path[i + 2:j]
                if "'" in name or "\\" in name:
                    raise BadPath(path)
                steps.append(name)
                i = j + 2
            else:
                j = path.find("]", i)
                if j < 0 or not path[i + 1:j].lstrip("-").isdigit() or path[i + 1:j].count("-") > 1:
                    raise BadPath(path)
                steps.append(int(path[i + 1:j]))
                i = j + 1
        else:
            raise BadPath(path)
    return steps


def unparse(steps, style="dot"):
    """Render steps; style 'dot' uses .name when legal, 'bracket' always ['name']."""
    out = "$"
    for s in steps:
        if isinstance(s, int):
            out += "[%d]" % s
        elif style == "dot" and s and s[0] in _IDENT0 and all(ch in _IDENT for ch in s):
            out += "." + s
        else:
            out += "['%s']" % s
    return out


def read(doc, steps):
    cur = doc
    for s in steps:
        if isinstance(s, int):
            if isinstance(cur, list) and 0 <= s < len(cur):
                cur = cur[s]
            else:
                raise Missing(steps)
        else:
            if isinstance(cur, dict) and s in cur:
                cur = cur[s]
            else:
                raise Missing(steps)
    return cur


def exists(doc, steps):
    try:
        read(doc, steps)
        return True
    except Missing:
        return False


AMBIGUOUS = "ambiguous"


def placeable(doc, steps):
    """
    True / False / AMBIGUOUS: can `steps` be placed into `doc`?

    Objects accept any member name (created when absent).  Arrays accept only an
    existing index.  Scalars accept nothing.  A JSON null on the way is
    AMBIGUOUS (the specification does not say whether null may be replaced by a
    fresh object): the oracle then accepts either outcome.
    """
    cur = doc
    for k, s in enumerate(steps):
        if isinstance(cur, dict):
            if isinstance(s, int):
                return False
            if s in cur:
                cur = cur[s]
            else:
                # the rest of the path is created: names create objects,
                # an index into a fresh object cannot be created
                return not any(isinstance(t, int) for t in steps[k + 1:])
        elif isinstance(cur, list):
            if isinstance(s, int) and s < 0:
                return AMBIGUOUS       # negative array indices: not part of the Reference Path grammar, not asserted
            if not isinstance(s, int) or not (0 <= s < len(cur)):
                return False
            cur = cur[s]
        elif cur is None:
            return AMBIGUOUS
        else:
            return False
    return True


def put(doc, steps, result):
    """Reference result of ResultPath placement; never mutates its arguments."""
    if not steps:
        return copy.deepcopy(result)
    out = copy.deepcopy(doc)
    result = copy.deepcopy(result)
    cur = out
    for k, s in enumerate(steps):
        last = k == len(steps) - 1
        if isinstance(cur, dict) and isinstance(s, str):
            if last:
                cur[s] = result
            else:
                if s not in cur:
                    cur[s] = {}
                cur = cur[s]
        elif isinstance(cur, list) and isinstance(s, int) and 0 <= s < len(cur):
            if last:
                cur[s] = result
            else:
                cur = cur[s]
        else:
            raise Unplaceable(steps)
    return out


def is_finite_tree(value, limit=100000):
    """True iff `value` is an acyclic JSON tree (shared sub-trees are allowed
    as long as no node is its own ancestor) of fewer than `limit` nodes."""
    count = 0
    stack = [(value, False)]
    onpath = set()
    while stack:
        v, leaving = stack.pop()
        if leaving:
            onpath.discard(id(v))
            continue
        count += 1
        if count > limit:
            return False
        if isinstance(v, (dict, list)):
            if id(v) in onpath:
                return False
            onpath.add(id(v))
            stack.append((v, True))
            children = v.values() if isinstance(v, dict) else v
            for c in children:
                stack.append((c, False))
    return True
