"""
Reference evaluation of Payload Templates and Intrinsic Functions (States
Language "Payload Template", "Intrinsic Functions", Appendix B).  Hand-written
recursive-descent parser; shares nothing with the repository.
"""
import base64, copy, hashlib, json, re

from . import paths as rp


class IntrinsicFailure(Exception):
    """The intrinsic call is ill-formed or fails: States.IntrinsicFailure."""


class PathFailure(Exception):
    """A '.$' path that addresses nothing (States.ParameterPathFailure / runtime path failure)."""


class Unspecified(Exception):
    """The specification leaves this case open; the oracle must not assert on it."""


# ------------------------------------------------------------------- parser
class Call:
    def __init__(self, name, args):
        self.name, self.args = name, args


class PathArg:
    def __init__(self, text):
        self.text = text


class Lit:
    def __init__(self, value):
        self.value = value


_NUM = re.compile(r"-?(?:0|[1-9][0-9]*)(?:\.[0-9]+)?(?:[eE][+-]?[0-9]+)?")
_NAME = re.compile(r"[A-Za-z_][A-Za-z0-9_]*(?:\.[A-Za-z_][A-Za-z0-9_]*)*")


def parse_call(text):
    """Parse a whole intrinsic expression; raises IntrinsicFailure when ill-formed."""
    pos, node = _call(text, _ws(text, 0))
    pos = _ws(text, pos)
    if pos != len(text):
        raise IntrinsicFailure("trailing characters at %d" % pos)
    return node


def _ws(s, i):
    while i < len(s) and s[i] in " \t\r\n":
        i += 1
    return i


def _call(s, i):
    m = _NAME.match(s, i)
    if not m:
        raise IntrinsicFailure("function name expected at %d" % i)
    name = m.group(0)
    i = _ws(s, m.end())
    if i >= len(s) or s[i] != "(":
        raise IntrinsicFailure("'(' expected at %d" % i)
    i = _ws(s, i + 1)
    args = []
    if i < len(s) and s[i] == ")":
        return i + 1, Call(name, args)
    while True:
        i, a = _arg(s, i)
        args.append(a)
        i = _ws(s, i)
        if i >= len(s):
            raise IntrinsicFailure("unbalanced parenthesis")
        if s[i] == ",":
            i = _ws(s, i + 1)
            continue
        if s[i] == ")":
            return i + 1, Call(name, args)
        raise IntrinsicFailure("',' or ')' expected at %d" % i)


def _arg(s, i):
    if i >= len(s):
        raise IntrinsicFailure("argument expected")
    c = s[i]
    if c == "'":
        out, j = [], i + 1
        while True:
            if j >= len(s):
                raise IntrinsicFailure("unterminated string")
            ch = s[j]
            if ch == "\\":
                if j + 1 >= len(s):
                    raise IntrinsicFailure("dangling backslash")
                nx = s[j + 1]
                if nx in "'\\":
                    out.append(nx)
                else:
                    out.append("\\" + nx)     # \{ and \} stay for States.Format
                j += 2
            elif ch == "'":
                return j + 1, Lit("".join(out))
            else:
                out.append(ch)
                j += 1
    if c == "$":
        j = i
        depth = 0
        while j < len(s):
            ch = s[j]
            if ch == "[":
                depth += 1
            elif ch == "]":
                depth -= 1
            elif ch == "'" and depth > 0:
                k = s.find("'", j + 1)
                if k < 0:
                    raise IntrinsicFailure("unterminated quoted key")
                j = k
            elif depth == 0 and (ch in ",)" or ch in " \t\r\n"):
                break
            j += 1
        return j, PathArg(s[i:j])
    m = _NUM.match(s, i)
    if m and m.end() > i and (m.end() == len(s) or s[m.end()] in ",) \t\r\n"):
        t = m.group(0)
        return m.end(), Lit(float(t) if any(x in t for x in ".eE") else int(t))
    for word, val in (("null", None), ("true", True), ("false", False)):
        if s.startswith(word, i) and (i + len(word) == len(s) or s[i + len(word)] in ",) \t\r\n"):
            return i + len(word), Lit(val)
    if _NAME.match(s, i):
        return _call(s, i)
    raise IntrinsicFailure("unrecognised argument at %d" % i)


# ---------------------------------------------------------------- evaluator
def lookup(path_text, data, context):
    try:
        if path_text.startswith("$$"):
            steps = rp.parse(path_text[1:])
            src = context
        else:
            steps = rp.parse(path_text)
            src = data
    except rp.BadPath:
        raise Unspecified("path outside the definite grammar: %r" % path_text)
    try:
        return copy.deepcopy(rp.read(src, steps))
    except rp.Missing:
        raise PathFailure(path_text)


def _is_int(v):
    return isinstance(v, int) and not isinstance(v, bool)


def _mixed_number_forms(values):
    """Is there a pair of numbers among the (nested) values that are equal but written differently (2 and 2.0)?  Whether those count as the same value is not specified."""
    flat = []

    def walk(v):
        if isinstance(v, bool):
            return
        if isinstance(v, (int, float)):
            flat.append(v)
        elif isinstance(v, list):
            for x in v:
                walk(x)
        elif isinstance(v, dict):
            for x in v.values():
                walk(x)
    for v in values:
        walk(v)
    return any(a == b and type(a) is not type(b) for i, a in enumerate(flat) for b in flat[i + 1:])


def json_eq(a, b):
    if isinstance(a, bool) or isinstance(b, bool):
        return isinstance(a, bool) and isinstance(b, bool) and a == b
    if isinstance(a, (int, float)) and isinstance(b, (int, float)):
        return a == b
    if type(a) is not type(b):
        return False
    if isinstance(a, dict):
        return a.keys() == b.keys() and all(json_eq(a[k], b[k]) for k in a)
    if isinstance(a, list):
        return len(a) == len(b) and all(json_eq(x, y) for x, y in zip(a, b))
    return a == b


class Marker:
    """A result the oracle must check by predicate rather than by equality."""

    def __init__(self, kind, **kw):
        self.kind = kind
        self.__dict__.update(kw)


def format_template(tpl, args):
    out, i, k = [], 0, 0
    while i < len(tpl):
        c = tpl[i]
        if c == "\\" and i + 1 < len(tpl) and tpl[i + 1] in "{}":   # \\' and \\\\ were decoded with the string literal
            out.append(tpl[i + 1])
            i += 2
        elif c == "{":
            if i + 1 < len(tpl) and tpl[i + 1] == "}":
                if k >= len(args):
                    raise IntrinsicFailure("not enough arguments for States.Format")
                a = args[k]
                k += 1
                if isinstance(a, str):
                    out.append(a)
                elif _is_int(a):
                    out.append(str(a))
                else:
                    raise Unspecified("rendering of non-string/non-integer Format arguments")
                i += 2
            else:
                raise Unspecified("unescaped '{' that is not a placeholder")
        elif c == "}":
            raise Unspecified("unescaped '}'")
        else:
            out.append(c)
            i += 1
    if k != len(args):
        raise Unspecified("more arguments than placeholders")
    return "".join(out)


def call(name, args):
    """Apply intrinsic `name` to evaluated `args`."""
    def need(n):
        if len(args) != n:
            raise IntrinsicFailure("%s expects %d arguments" % (name, n))
    if name == "States.Format":
        if not args or not isinstance(args[0], str):
            raise IntrinsicFailure("States.Format needs a template string")
        return format_template(args[0], args[1:])
    if name == "States.StringToJson":
        need(1)
        if not isinstance(args[0], str):
            raise IntrinsicFailure("string expected")
        try:
            return json.loads(args[0])
        except ValueError:
            raise IntrinsicFailure("invalid JSON")
    if name == "States.JsonToString":
        need(1)
        return Marker("json-text", value=args[0])
    if name == "States.Array":
        return list(args)
    if name == "States.ArrayPartition":
        need(2)
        if not isinstance(args[0], list) or not _is_int(args[1]) or args[1] <= 0:
            raise IntrinsicFailure("bad ArrayPartition arguments")
        a, n = args
        return [a[i:i + n] for i in range(0, len(a), n)]
    if name == "States.ArrayContains":
        need(2)
        if not isinstance(args[0], list):
            raise IntrinsicFailure("array expected")
        if _mixed_number_forms(list(args[0]) + [args[1]]):
            raise Unspecified("ArrayContains over numbers that are equal but written differently (2 / 2.0)")
        return any(json_eq(x, args[1]) for x in args[0])
    if name == "States.ArrayRange":
        need(3)
        if not all(_is_int(a) for a in args) or args[2] == 0:
            raise IntrinsicFailure("bad ArrayRange arguments")
        first, last, step = args
        out, v = [], first
        while (step > 0 and v <= last) or (step < 0 and v >= last):
            out.append(v)
            v += step
            if len(out) > 1000:
                raise IntrinsicFailure("more than 1000 items")
        if step < 0:
            return Marker("either-failure-or", value=out)   # negative increments: accepted or rejected, never truncated
        return out
    if name == "States.ArrayGetItem":
        need(2)
        if not isinstance(args[0], list) or not _is_int(args[1]):
            raise IntrinsicFailure("bad ArrayGetItem arguments")
        if not (0 <= args[1] < len(args[0])):
            raise IntrinsicFailure("index out of bounds")
        return args[0][args[1]]
    if name == "States.ArrayLength":
        need(1)
        if not isinstance(args[0], list):
            raise IntrinsicFailure("array expected")
        return len(args[0])
    if name == "States.ArrayUnique":
        need(1)
        if not isinstance(args[0], list):
            raise IntrinsicFailure("array expected")
        if _mixed_number_forms(args[0]):
            raise Unspecified("ArrayUnique over numbers that are equal but written differently (2 / 2.0)")
        uniq = []
        for x in args[0]:
            if not any(json_eq(x, y) for y in uniq):
                uniq.append(x)
        return Marker("permutation-of", value=uniq)
    if name == "States.Base64Encode":
        need(1)
        if not isinstance(args[0], str):
            raise IntrinsicFailure("string expected")
        return base64.b64encode(args[0].encode("utf-8")).decode("ascii")
    if name == "States.Base64Decode":
        need(1)
        if not isinstance(args[0], str):
            raise IntrinsicFailure("string expected")
        try:
            return base64.b64decode(args[0].encode("utf-8"), validate=True).decode("utf-8")
        except Exception:
            raise Unspecified("text that is not canonical base64 of UTF-8 (lenient decoders differ)")
    if name == "States.Hash":
        need(2)
        algs = {"MD5": "md5", "SHA-1": "sha1", "SHA-256": "sha256", "SHA-384": "sha384", "SHA-512": "sha512"}
        if not isinstance(args[0], str) or args[1] not in algs or not isinstance(args[1], str):
            raise IntrinsicFailure("bad Hash arguments")
        return hashlib.new(algs[args[1]], args[0].encode("utf-8")).hexdigest()
    if name == "States.JsonMerge":
        need(3)
        if not isinstance(args[0], dict) or not isinstance(args[1], dict) or args[2] is not False:
            raise IntrinsicFailure("bad JsonMerge arguments")
        out = dict(args[0])
        out.update(args[1])
        return out
    if name == "States.MathRandom":
        if len(args) not in (2, 3) or not _is_int(args[0]) or not _is_int(args[1]):
            raise IntrinsicFailure("bad MathRandom arguments")
        if args[0] >= args[1]:
            raise Unspecified("empty MathRandom range")          # (a value cannot exist; whether it is a failure or something else is not specified: only 'no arbitrary exception' is asserted)
        if len(args) == 3 and isinstance(args[2], (list, dict)):
            raise Unspecified("MathRandom seed that is not a scalar")   # the seed's type is not specified
        return Marker("int-in-range", lo=args[0], hi=args[1])
    if name == "States.MathAdd":
        need(2)
        if not _is_int(args[0]) or not _is_int(args[1]):
            raise IntrinsicFailure("integers expected")
        return args[0] + args[1]
    if name == "States.StringSplit":
        need(2)
        if not isinstance(args[0], str) or not isinstance(args[1], str):
            raise IntrinsicFailure("strings expected")
        s, seps = args
        if seps == "":
            raise Unspecified("empty separator set")
        out, cur = [], []
        for ch in s:
            if ch in seps:
                out.append("".join(cur))
                cur = []
            else:
                cur.append(ch)
        out.append("".join(cur))
        if any(x == "" for x in out):
            raise Unspecified("empty segments (adjacent/leading/trailing separators)")
        return out
    if name == "States.UUID":
        need(0)
        return Marker("uuid4")
    raise IntrinsicFailure("unknown intrinsic %r" % name)


def evaluate_node(node, data, context):
    if isinstance(node, Lit):
        return node.value
    if isinstance(node, PathArg):
        return lookup(node.text, data, context)
    args = [evaluate_node(a, data, context) for a in node.args]
    if any(isinstance(a, Marker) for a in args):
        raise Unspecified("nested call whose value is only known by predicate")
    return call(node.name, args)


def evaluate_intrinsic(text, data, context):
    return evaluate_node(parse_call(text), data, context)


def matches(result, expected):
    """Does the implementation's `result` satisfy the reference `expected` (value or Marker)?"""
    if isinstance(expected, Marker):
        k = expected.kind
        if k == "json-text":
            if not isinstance(result, str):
                return False
            try:
                return json_eq(json.loads(result), expected.value)
            except ValueError:
                return False
        if k == "permutation-of":
            if not isinstance(result, list) or len(result) != len(expected.value):
                return False
            rest = list(expected.value)
            for x in result:
                for i, y in enumerate(rest):
                    if json_eq(x, y):
                        del rest[i]
                        break
                else:
                    return False
            return True
        if k == "int-in-range":
            return _is_int(result) and expected.lo <= result < expected.hi
        if k == "uuid4":
            return isinstance(result, str) and re.fullmatch(
                r"[0-9a-f]{8}-[0-9a-f]{4}-4[0-9a-f]{3}-[89ab][0-9a-f]{3}-[0-9a-f]{12}", result) is not None
        if k == "either-failure-or":
            return json_eq(result, expected.value)
        raise KeyError(k)
    return json_eq(result, expected)


def contains_marker(v):
    if isinstance(v, Marker):
        return True
    if isinstance(v, dict):
        return any(contains_marker(x) for x in v.values())
    if isinstance(v, list):
        return any(contains_marker(x) for x in v)
    return False


def tree_matches(result, expected):
    if isinstance(expected, Marker):
        return matches(result, expected)
    if isinstance(expected, dict):
        return isinstance(result, dict) and result.keys() == expected.keys() and all(
            tree_matches(result[k], expected[k]) for k in expected)
    if isinstance(expected, list):
        return isinstance(result, list) and len(result) == len(expected) and all(
            tree_matches(r, e) for r, e in zip(result, expected))
    return json_eq(result, expected)


def evaluate_template(template, data, context):
    """Payload Template: members whose name ends in '.$' are evaluated and renamed."""
    if isinstance(template, dict):
        out = {}
        for k, v in template.items():
            if isinstance(k, str) and k.endswith(".$"):
                if not isinstance(v, str):
                    raise Unspecified("'.$' member whose value is not a string")
                if v.startswith("$"):
                    val = lookup(v, data, context)
                else:
                    val = evaluate_intrinsic(v, data, context)
                name = k[:-2]
                if name in out or name in template:
                    raise Unspecified("duplicate member after renaming")
                out[name] = val
            else:
                out[k] = evaluate_template(v, data, context)
        return out
    if isinstance(template, list):
        return [evaluate_template(v, data, context) for v in template]
    return copy.deepcopy(template)
