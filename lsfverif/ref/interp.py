"""
Reference big-step interpreter for the Amazon States Language, written from the
specification (states-language.net) and the property statements C01/C05-C09.
It carries a virtual time so that, under the zero-latency canonical schedule,
request instants and completion instants can be predicted exactly.

Only *definite* paths are supported (lsfverif.ref.paths).  Where the
specification (or the property) leaves an outcome open the interpreter raises
Unspec and the oracle does not assert.
"""
import copy, json

from . import paths as rp
from . import template as rt
from . import choice as rc
from . import timefmt


class Unspec(Exception):
    pass


class _Any:
    """Wildcard for values the oracle must not compare (human-readable Cause texts)."""

    def __deepcopy__(self, memo):
        return self

    def __repr__(self):
        return "<ANY>"


ANY = _Any()

RUNTIME = ("States.Runtime",)
PARAM_PATH = ("States.Runtime", "States.ParameterPathFailure")
UNRECOVERABLE = {"States.Runtime", "States.ParameterPathFailure", "States.ExecutionTimeout", "Task.Terminated"}


class StateError(Exception):
    """A state failed with error `names` (tuple of acceptable names) at virtual time t."""

    def __init__(self, names, cause=ANY, t=None, exact_cause=False):
        Exception.__init__(self, names)
        self.names = (names,) if isinstance(names, str) else tuple(names)
        self.cause = cause
        self.t = t
        self.exact_cause = exact_cause

    @property
    def name(self):
        return self.names[0]

    def recoverable(self):
        return not any(n in UNRECOVERABLE for n in self.names)


def strip_cause(v):
    if isinstance(v, dict):
        return {k: strip_cause(x) for k, x in v.items() if k != "Cause"}
    if isinstance(v, list):
        return [strip_cause(x) for x in v]
    return v


def payload_key(v):
    return json.dumps(strip_cause(_no_any(v)), sort_keys=True)


def _no_any(v):
    if v is ANY:
        return "<ANY>"
    if isinstance(v, dict):
        return {k: _no_any(x) for k, x in v.items()}
    if isinstance(v, list):
        return [_no_any(x) for x in v]
    return v


class TaskOracle:
    """
    Fixed behaviour of the invoked tasks.  spec = {fn: {"seq": [outcome...], "by_key": {key: [outcome...]}}}
    outcome = {"ok": value} | {"ok": "$echo"} | {"err": name, "msg": text} | {"never": true}, optional "delay": seconds.
    The k-th request carrying the same payload to the same function gets seq[min(k, len-1)].
    """

    def __init__(self, spec):
        self.spec = spec or {}
        self.attempts = {}

    @staticmethod
    def key_of(payload):
        if isinstance(payload, dict) and "k" in payload:
            payload = payload["k"]
        if isinstance(payload, (dict, list)) or payload is ANY:
            return None
        return json.dumps(payload)

    def outcome(self, fn, payload):
        f = self.spec.get(fn) or {"seq": [{"ok": "$echo"}]}
        seq = f.get("seq") or [{"ok": "$echo"}]
        k = self.key_of(payload)
        if k is not None and k in (f.get("by_key") or {}):
            seq = f["by_key"][k]
        ak = (fn, payload_key(payload))
        n = self.attempts.get(ak, 0)
        self.attempts[ak] = n + 1
        o = seq[min(n, len(seq) - 1)]
        return o

    @staticmethod
    def value_of(o, payload):
        v = o.get("ok")
        if v == "$echo":
            return {"echo": copy.deepcopy(payload)}
        return copy.deepcopy(v)


class Result:
    def __init__(self, status, output=None, error=None, cause=None, t_end=None, trace=None, requests=None, exact_cause=False):
        self.status = status
        self.output = output
        self.error = error            # tuple of acceptable names
        self.cause = cause
        self.exact_cause = exact_cause
        self.t_end = t_end
        self.trace = trace or []
        self.requests = requests or []

    def __repr__(self):
        return "Result(%s, output=%r, error=%r, t_end=%r)" % (self.status, self.output, self.error, self.t_end)


class Interp:
    def __init__(self, definition, oracle_spec=None, t0=0.0, execution=None, sm_arn=None, choose_failure=None,
                 fn_of_resource=None, inband_convention=False):
        # inband_convention=True models the engine's documented-nowhere convention that a terminal
        # state output (of the execution or of a branch/iteration) which is an object with a truthy
        # "Error" member means failure.  Only used to *classify* disagreements (known finding F8).
        self.inband = inband_convention
        self.asl = definition
        self.oracle = TaskOracle(oracle_spec)
        self.t0 = t0
        self.requests = []          # dict(fn, payload, t, state)
        self.execution = execution or {}
        self.sm_arn = sm_arn
        self.choose_failure = choose_failure or (lambda cands: 0)
        self.fn_of_resource = fn_of_resource or (lambda r: r.rsplit(":", 1)[-1])
        self.multi_retrier = False  # a second, different retrier was visited for one state (F15 class)
        self.ambiguous_failure = False  # several branches failed at the same instant with different errors
        self.deadline = None
        if "TimeoutSeconds" in definition:
            self.deadline = t0 + definition["TimeoutSeconds"]

    # ------------------------------------------------------------ top level
    def run(self, input_value):
        ctx = {"Execution": dict(self.execution, Input=copy.deepcopy(input_value)),
               "StateMachine": {"Id": self.sm_arn}, "State": {}}
        trace = []
        try:
            out, t = self.run_machine(self.asl, copy.deepcopy(input_value), self.t0, ctx, trace)
            return Result("SUCCEEDED", output=out, t_end=t, trace=trace, requests=self.requests)
        except StateError as e:
            return Result("FAILED", error=e.names, cause=e.cause, t_end=e.t, trace=trace, requests=self.requests,
                          exact_cause=e.exact_cause)

    def run_machine(self, machine, data, t, ctx, trace):
        name = machine["StartAt"]
        states = machine["States"]
        steps = 0
        while True:
            steps += 1
            if steps > 10000:
                raise Unspec("non-terminating machine")
            if name not in states:
                raise Unspec("dangling transition")
            state = states[name]
            nxt, data, t = self.run_state(name, state, data, t, ctx, trace)
            if nxt is None:
                if self.inband and isinstance(data, dict) and data.get("Error"):
                    raise StateError(data["Error"], cause=data.get("Cause", ANY), t=t)
                return data, t
            name = nxt

    # -------------------------------------------------------------- filters
    def read_path(self, path, data, ctx, names=RUNTIME, t=None):
        if path is None:
            return {}
        try:
            if path.startswith("$$"):
                return copy.deepcopy(rp.read(ctx, rp.parse(path[1:])))
            return copy.deepcopy(rp.read(data, rp.parse(path)))
        except rp.Missing:
            raise StateError(names, t=t)
        except rp.BadPath:
            raise Unspec("path outside the definite grammar: %r" % path)

    def template(self, tpl, data, ctx, t):
        try:
            return rt.evaluate_template(tpl, data, ctx)
        except rt.PathFailure:
            raise StateError(PARAM_PATH, t=t)
        except rt.IntrinsicFailure:
            raise StateError("States.IntrinsicFailure", t=t)
        except rt.Unspecified as e:
            raise Unspec(str(e))

    def result_path(self, state, raw, result, t, key="ResultPath"):
        path = state.get(key, "$")
        if path is None:
            return copy.deepcopy(raw)
        try:
            steps = rp.parse(path)
        except rp.BadPath:
            raise Unspec("ResultPath outside the definite grammar")
        if not steps:
            return copy.deepcopy(result)
        v = rp.placeable(raw, steps)
        if v == rp.AMBIGUOUS:
            raise Unspec("ResultPath through null")
        if v is False:
            raise StateError("States.ResultPathMatchFailure", t=t)
        return rp.put(raw, steps, result)

    def output_path(self, state, data, ctx, t):
        return self.read_path(state.get("OutputPath", "$"), data, ctx, t=t)

    # --------------------------------------------------------------- states
    def run_state(self, name, state, raw, t, ctx, trace):
        """-> (next state name or None, output, time)"""
        typ = state["Type"]
        ctx["State"] = {"Name": name}
        trace.append(("enter", name, copy.deepcopy(raw)))
        if typ in ("Task", "Parallel", "Map"):
            out, nxt, t = self.run_with_error_handling(name, state, raw, t, ctx, trace)
            return nxt, out, t
        if typ == "Pass":
            inp = self.read_path(state.get("InputPath", "$"), raw, ctx, t=t)
            params = self.template(state["Parameters"], inp, ctx, t) if state.get("Parameters") is not None else inp
            result = copy.deepcopy(state["Result"]) if "Result" in state else params
            out = self.output_path(state, self.result_path(state, raw, result, t), ctx, t)
        elif typ == "Choice":
            inp = self.read_path(state.get("InputPath", "$"), raw, ctx, t=t)
            # a rule that looks at a value the oracle does not model (the text of a Cause) has no defined outcome here
            def _paths(rule, acc):
                if isinstance(rule, dict):
                    for k, v in rule.items():
                        if (k == "Variable" or k.endswith("Path")) and isinstance(v, str) and v.startswith("$"):
                            acc.append(v)
                        else:
                            _paths(v, acc)
                elif isinstance(rule, list):
                    for x in rule:
                        _paths(x, acc)
                return acc

            def _has_any(v):
                return v is ANY or (isinstance(v, dict) and any(_has_any(x) for x in v.values())) or (isinstance(v, list) and any(_has_any(x) for x in v))
            for pth in _paths(state.get("Choices", []), []):
                try:
                    if _has_any(self.read_path(pth, inp, ctx, t=t)):
                        raise Unspec("choice rule over a value that is not modelled (Cause text)")
                except StateError:
                    pass
            kind, target = rc.choose(state, inp, ctx)
            if kind == "unspec":
                raise Unspec("choice rule outcome unspecified")
            out = self.output_path(state, inp, ctx, t)
            if kind == "error":
                raise StateError("States.NoChoiceMatched", t=t)
            trace.append(("exit", name, copy.deepcopy(out)))
            return target, out, t
        elif typ == "Wait":
            inp = self.read_path(state.get("InputPath", "$"), raw, ctx, t=t)
            t_entered = t
            if "Seconds" in state:
                target = t_entered + state["Seconds"]
            elif "SecondsPath" in state:
                s = self.read_path(state["SecondsPath"], inp, ctx, t=t)
                if not rc.is_number(s) or s < 0:
                    raise Unspec("SecondsPath does not address a non-negative number")
                target = t_entered + s
            elif "Timestamp" in state or "TimestampPath" in state:
                ts = state["Timestamp"] if "Timestamp" in state else self.read_path(state["TimestampPath"], inp, ctx, t=t)
                try:
                    target = timefmt.parse_us(ts) / 1e6
                except timefmt.BadTimestamp:
                    raise Unspec("Wait timestamp is not RFC 3339")
            else:
                raise Unspec("Wait without a duration")
            t_done = max(t, target)
            if self.deadline is not None and self.deadline < t_done:
                raise StateError("States.ExecutionTimeout", t=max(t, self.deadline))
            t = t_done
            out = self.output_path(state, inp, ctx, t)
        elif typ == "Succeed":
            inp = self.read_path(state.get("InputPath", "$"), raw, ctx, t=t)
            out = self.output_path(state, inp, ctx, t)
            trace.append(("exit", name, copy.deepcopy(out)))
            return None, out, t
        elif typ == "Fail":
            raise StateError(state.get("Error", ANY), cause=state.get("Cause", ANY), t=t, exact_cause="Cause" in state)
        else:
            raise Unspec("unknown state type")
        trace.append(("exit", name, copy.deepcopy(out)))
        if state.get("End"):
            return None, out, t
        if "Next" not in state:
            raise Unspec("state without Next/End")
        return state["Next"], out, t

    # ------------------------------------------------------ Retry and Catch
    @staticmethod
    def _matches(error_equals, err):
        if any(n in error_equals for n in err.names):
            return True
        if "States.ALL" in error_equals and err.recoverable():
            return True
        return False

    def run_with_error_handling(self, name, state, raw, t, ctx, trace):
        counts = {}
        visited = set()
        attempt_no = 0
        while True:
            ctx["State"] = {"Name": name}
            if attempt_no:
                ctx["State"]["RetryCount"] = attempt_no
            try:
                out, t2 = self.attempt(name, state, raw, t, ctx, trace)
                trace.append(("exit", name, copy.deepcopy(out)))
                if state.get("End"):
                    return out, None, t2
                return out, state["Next"], t2
            except StateError as e:
                t_fail = e.t if e.t is not None else t
                if not e.recoverable():
                    if any("States.ALL" in (r.get("ErrorEquals") or []) for r in (state.get("Retry") or []) + (state.get("Catch") or [])) \
                            and any(n not in ("States.Runtime", "States.ExecutionTimeout", "Task.Terminated") for n in e.names):
                        raise Unspec("ambiguous recoverability of %r under States.ALL" % (e.names,))
                    raise
                if state.get("Type") == "Task" and "States.TaskFailed" not in e.names \
                        and any("States.TaskFailed" in (h.get("ErrorEquals") or []) for h in (state.get("Retry") or []) + (state.get("Catch") or [])):
                    # "States.TaskFailed acts as a wildcard that matches any known error name except States.Timeout" (AWS error-handling guide; the engine documents that it
                    # follows it) vs. the States Language's plain name matching: whether a handler naming States.TaskFailed sees the Task state's own errors is not prescribed
                    raise Unspec("States.TaskFailed handler and a Task error of another name %r" % (e.names,))
                retried = False
                for i, r in enumerate(state.get("Retry") or []):
                    if self._matches(r.get("ErrorEquals") or [], e):
                        visited.add(i)
                        if len(visited) > 1:
                            self.multi_retrier = True
                        n = counts.get(i, 0)
                        if n < r.get("MaxAttempts", 3):
                            delay = r.get("IntervalSeconds", 1) * (max(1.0, r.get("BackoffRate", 2.0)) ** n)
                            counts[i] = n + 1
                            attempt_no += 1
                            t = t_fail + delay
                            trace.append(("retry", name, attempt_no, t))
                            retried = True
                        break
                if retried:
                    if self.deadline is not None and t > self.deadline:
                        raise Unspec("execution deadline falls inside a retry interval")
                    continue
                for c in state.get("Catch") or []:
                    if self._matches(c.get("ErrorEquals") or [], e):
                        if len(e.names) != 1:
                            raise Unspec("caught error with an ambiguous name")
                        err_out = {"Error": e.name, "Cause": ANY}    # Cause texts are implementation-defined
                        out = self.result_path(c, raw, err_out, t_fail)
                        trace.append(("caught", name, e.name))
                        trace.append(("exit?", name, copy.deepcopy(out)))   # a caught state may or may not log StateExited
                        return out, c["Next"], t_fail
                e.t = t_fail
                raise

    def attempt(self, name, state, raw, t, ctx, trace):
        typ = state["Type"]
        if typ == "Task":
            return self.run_task(name, state, raw, t, ctx)
        if typ == "Parallel":
            return self.run_parallel(name, state, raw, t, ctx, trace)
        return self.run_map(name, state, raw, t, ctx, trace)

    # ----------------------------------------------------------------- Task
    def run_task(self, name, state, raw, t, ctx):
        inp = self.read_path(state.get("InputPath", "$"), raw, ctx, t=t)
        params = self.template(state["Parameters"], inp, ctx, t) if state.get("Parameters") is not None else inp
        long_form = state["Resource"].endswith(":rpcmessage:invoke")
        if long_form:
            # "arn:aws:states:<region>::rpcmessage:invoke": Parameters = {FunctionName, Payload}; the result is wrapped in invocation metadata
            if not isinstance(params, dict) or not params.get("FunctionName"):
                raise Unspec("long-form invoke without FunctionName")
            fn = self.fn_of_resource(params["FunctionName"])
            params = params.get("Payload", {})
        else:
            fn = self.fn_of_resource(state["Resource"])
        o = self.oracle.outcome(fn, params)
        self.requests.append({"fn": fn, "payload": copy.deepcopy(params), "t": t, "state": name})
        delay = o.get("delay", 0)
        timeout = state.get("TimeoutSeconds")
        t_limit = None
        names = None
        if timeout is not None:
            t_limit, names = t + timeout, "States.Timeout"
        if self.deadline is not None and (t_limit is None or self.deadline < t_limit):
            t_limit, names = self.deadline, "States.ExecutionTimeout"
        if o.get("never") or (t_limit is not None and t + delay > t_limit):
            if t_limit is None:
                raise Unspec("task that never completes and has no timeout")
            raise StateError(names, t=t_limit)
        if t_limit is not None and t + delay == t_limit:
            raise Unspec("reply exactly at the deadline")
        t_done = t + delay
        if "err" in o:
            raise StateError(o["err"], cause=ANY, t=t_done)   # Cause texts are implementation-defined
        value = self.oracle.value_of(o, params)
        if isinstance(value, dict) and (value.get("Error") or value.get("errorType")):
            raise Unspec("success value using the reply protocol's error members")
        if long_form:
            value = {"ExecutedVersion": "$LATEST", "Payload": value, "SdkResponseMetadata": {"RequestId": ANY}, "StatusCode": 200}
        if state.get("ResultSelector") is not None:
            value = self.template(state["ResultSelector"], value, ctx, t_done)
        out = self.output_path(state, self.result_path(state, raw, value, t_done), ctx, t_done)
        return out, t_done

    # -------------------------------------------------------------- fan-out
    def _join(self, results, t, name=None):
        self.join_name = name          # lets a choose_failure policy decide per fan-out state
        """results: list of ("ok", out, t_end, trace) | ("err", StateError, trace)"""
        failures = [(i, r) for i, r in enumerate(results) if r[0] == "err"]
        if failures:
            tmin = min((r[1].t if r[1].t is not None else t) for _, r in failures)
            cands = [(i, r) for i, r in failures if (r[1].t if r[1].t is not None else t) == tmin]
            if getattr(self, "any_failing_branch", False):
                cands = list(failures)      # schedule-agnostic: a reply may be delivered late, any failing branch may be acted upon first
            if len({(c[1][1].names, repr(c[1][1].cause)) for c in cands}) > 1:
                self.ambiguous_failure = True
            i, r = cands[self.choose_failure([c[0] for c in cands]) % len(cands)]
            e = r[1]
            # a Fail state's Cause that travels through a Parallel/Map may be decorated by the interpreter:
            # it must still be contained in the reported cause
            e2 = StateError(e.names, cause=e.cause, t=(e.t if e.t is not None else tmin), exact_cause="contains" if e.exact_cause else False)
            e2.failed_branches = [c[0] for c in cands]
            e2.all_failed = [i for i, _ in failures]
            raise e2
        return [r[1] for r in results], max([t] + [r[2] for r in results])

    def run_parallel(self, name, state, raw, t, ctx, trace):
        inp = self.read_path(state.get("InputPath", "$"), raw, ctx, t=t)
        params = self.template(state["Parameters"], inp, ctx, t) if state.get("Parameters") is not None else inp
        results, btraces = [], []
        for b in state["Branches"]:
            bt = []
            btraces.append(bt)
            bctx = copy.deepcopy({k: v for k, v in ctx.items()})
            try:
                out, te = self.run_machine(b, copy.deepcopy(params), t, bctx, bt)
                results.append(("ok", out, te))
            except StateError as e:
                results.append(("err", e))
        trace.append(("fanout", name, btraces))
        outs, t_end = self._join(results, t, name)
        ctx["State"] = {"Name": name}
        value = outs
        if state.get("ResultSelector") is not None:
            value = self.template(state["ResultSelector"], value, ctx, t_end)
        out = self.output_path(state, self.result_path(state, raw, value, t_end), ctx, t_end)
        return out, t_end

    def run_map(self, name, state, raw, t, ctx, trace):
        inp = self.read_path(state.get("InputPath", "$"), raw, ctx, t=t)
        items = self.read_path(state.get("ItemsPath", "$"), inp, ctx, t=t)
        if not isinstance(items, list):
            raise Unspec("ItemsPath does not address an array")
        proc = state.get("ItemProcessor") or state.get("Iterator")
        selector = state.get("ItemSelector", state.get("Parameters"))
        if "Iterator" in state and "Parameters" in state:
            selector = state["Parameters"]
        mc = state.get("MaxConcurrency", 0) or len(items) or 1
        results, btraces = [], []
        t_batch = t
        failed = False
        for start in range(0, len(items), mc):
            batch_end = t_batch
            for idx in range(start, min(start + mc, len(items))):
                item = items[idx]
                bt = []
                btraces.append(bt)
                ictx = copy.deepcopy({k: v for k, v in ctx.items()})
                ictx["State"] = {"Name": name}
                ictx["Map"] = {"Item": {"Index": idx, "Value": copy.deepcopy(item)}}
                try:
                    eff = self.template(selector, inp, ictx, t_batch) if selector is not None else copy.deepcopy(item)       # (an empty ItemSelector is a template too: every iteration gets {})
                except StateError as e:
                    # the Map state itself fails while building an iteration's input
                    raise
                bctx = copy.deepcopy({k: v for k, v in ctx.items()})
                try:
                    out, te = self.run_machine(proc, eff, t_batch, bctx, bt)
                    results.append(("ok", out, te))
                    batch_end = max(batch_end, te)
                except StateError as e:
                    results.append(("err", e))
                    failed = True
            if failed:
                break
            t_batch = batch_end
        trace.append(("fanout", name, btraces))
        outs, t_end = self._join(results, t, name)
        ctx["State"] = {"Name": name}
        value = outs
        if state.get("ResultSelector") is not None:
            value = self.template(state["ResultSelector"], value, ctx, t_end)
        out = self.output_path(state, self.result_path(state, raw, value, t_end), ctx, t_end)
        return out, t_end


def values_match(got, expected):
    """JSON equality with ANY wildcards in `expected`; a member whose expected value is ANY may be absent."""
    if expected is ANY:
        return True
    if isinstance(expected, dict):
        if not isinstance(got, dict):
            return False
        for k, v in expected.items():
            if k not in got:
                if v is ANY:
                    continue
                return False
            if not values_match(got[k], v):
                return False
        return all(k in expected for k in got)
    if isinstance(expected, list):
        return isinstance(got, list) and len(got) == len(expected) and all(values_match(g, e) for g, e in zip(got, expected))
    return rt.json_eq(got, expected)


def run(definition, input_value, oracle_spec=None, **kw):
    return Interp(definition, oracle_spec, **kw).run(input_value)
