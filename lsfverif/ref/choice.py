"""
Reference semantics of Choice rules (States Language, "Choice State").
Three-valued: True (matches), False (does not match), UNSPEC (the specification /
the property statement leaves the outcome open; the oracle accepts anything).
"""
from . import paths as rp
from . import timefmt

UNSPEC = "unspecified"
MISSING = object()

STRING_OPS = {
    "StringEquals": lambda a, b: a == b,
    "StringLessThan": lambda a, b: a < b,
    "StringGreaterThan": lambda a, b: a > b,
    "StringLessThanEquals": lambda a, b: a <= b,
    "StringGreaterThanEquals": lambda a, b: a >= b,
}
NUMERIC_OPS = {
    "NumericEquals": lambda a, b: a == b,
    "NumericLessThan": lambda a, b: a < b,
    "NumericGreaterThan": lambda a, b: a > b,
    "NumericLessThanEquals": lambda a, b: a <= b,
    "NumericGreaterThanEquals": lambda a, b: a >= b,
}
TIMESTAMP_OPS = {
    "TimestampEquals": lambda a, b: a == b,
    "TimestampLessThan": lambda a, b: a < b,
    "TimestampGreaterThan": lambda a, b: a > b,
    "TimestampLessThanEquals": lambda a, b: a <= b,
    "TimestampGreaterThanEquals": lambda a, b: a >= b,
}
IS_OPS = ("IsNull", "IsPresent", "IsNumeric", "IsString", "IsBoolean", "IsTimestamp")
VALUE_OPS = list(STRING_OPS) + ["StringMatches"] + list(NUMERIC_OPS) + ["BooleanEquals"] + list(TIMESTAMP_OPS)
PATH_OPS = [op + "Path" for op in VALUE_OPS if op != "StringMatches"]
ALL_OPS = VALUE_OPS + PATH_OPS + list(IS_OPS)
assert len(ALL_OPS) == 39


def is_number(v):
    return isinstance(v, (int, float)) and not isinstance(v, bool)


def string_matches(value, pattern):
    """'*' matches zero or more characters; a backslash makes the next character
    literal; no other character is special."""
    toks, i = [], 0
    while i < len(pattern):
        c = pattern[i]
        if c == "\\" and i + 1 < len(pattern):
            toks.append(("lit", pattern[i + 1]))
            i += 2
        elif c == "*":
            toks.append(("star", None))
            i += 1
        else:
            toks.append(("lit", c))
            i += 1
    # classic DP
    n, m = len(value), len(toks)
    reach = [False] * (n + 1)
    reach[0] = True
    for kind, ch in toks:
        nxt = [False] * (n + 1)
        if kind == "star":
            seen = False
            for j in range(n + 1):
                seen = seen or reach[j]
                nxt[j] = seen
        else:
            for j in range(n):
                if reach[j] and value[j] == ch:
                    nxt[j + 1] = True
        reach = nxt
    return reach[n]


def compare(op, variable, value):
    """variable may be MISSING."""
    if op in IS_OPS:
        if not isinstance(value, bool):
            return UNSPEC
        if op == "IsPresent":
            return (variable is not MISSING) == value
        if variable is MISSING:
            return UNSPEC          # Is* other than IsPresent on a missing variable: not asserted
        if op == "IsNull":
            fact = variable is None
        elif op == "IsNumeric":
            fact = is_number(variable)
        elif op == "IsString":
            fact = isinstance(variable, str)
        elif op == "IsBoolean":
            fact = isinstance(variable, bool)
        else:
            fact = isinstance(variable, str) and timefmt.is_timestamp(variable)
        return fact == value
    if variable is MISSING:
        return False
    if op in STRING_OPS:
        if isinstance(variable, str) and isinstance(value, str):
            return STRING_OPS[op](variable, value)
        return False
    if op == "StringMatches":
        if isinstance(variable, str) and isinstance(value, str):
            return string_matches(variable, value)
        return False
    if op in NUMERIC_OPS:
        if is_number(variable) and is_number(value):
            return NUMERIC_OPS[op](variable, value)
        return False
    if op == "BooleanEquals":
        if isinstance(variable, bool) and isinstance(value, bool):
            return variable == value
        return False
    if op in TIMESTAMP_OPS:
        if isinstance(variable, str) and isinstance(value, str):
            try:
                a, b = timefmt.parse_us(variable), timefmt.parse_us(value)
            except timefmt.BadTimestamp:
                return False
            return TIMESTAMP_OPS[op](a, b)
        return False
    raise KeyError(op)


def _and(vals):
    if any(v is False for v in vals):
        return False
    if any(v == UNSPEC for v in vals):
        return UNSPEC
    return True


def _or(vals):
    if any(v is True for v in vals):
        return True
    if any(v == UNSPEC for v in vals):
        return UNSPEC
    return False


def evaluate(rule, data, context=None):
    """Evaluate one rule (possibly a Boolean tree) against the state's effective input."""
    if "And" in rule:
        return _and([evaluate(r, data, context) for r in rule["And"]])
    if "Or" in rule:
        return _or([evaluate(r, data, context) for r in rule["Or"]])
    if "Not" in rule:
        v = evaluate(rule["Not"], data, context)
        return UNSPEC if v == UNSPEC else (not v)
    var_path = rule.get("Variable")
    variable = _lookup(var_path, data, context)
    ops = [k for k in rule if k in ALL_OPS]
    if len(ops) != 1:
        return UNSPEC
    op = ops[0]
    value = rule[op]
    if op.endswith("Path") and op[:-4] in VALUE_OPS:
        value = _lookup(value, data, context)
        if value is MISSING:
            return UNSPEC          # a comparison path that resolves to nothing: unspecified
        op = op[:-4]
    return compare(op, variable, value)


def _lookup(path, data, context):
    try:
        if isinstance(path, str) and path.startswith("$$"):
            return rp.read(context or {}, rp.parse(path[1:]))
        return rp.read(data, rp.parse(path))
    except rp.Missing:
        return MISSING


def choose(state, data, context=None):
    """-> ("next", name) | ("error", "States.NoChoiceMatched") | ("unspec", None)"""
    for rule in state.get("Choices", []):
        v = evaluate(rule, data, context)
        if v == UNSPEC:
            return ("unspec", None)
        if v:
            return ("next", rule["Next"])
    if "Default" in state:
        return ("next", state["Default"])
    return ("error", "States.NoChoiceMatched")
