"""
World: the real engine stack (StateEngine, EventDispatcher, TaskDispatcher,
asyncio AMQP transport, Quart REST API) running on the simulated broker and a
virtual clock, driven one action at a time by the harness.
"""
import asyncio, base64, copy, datetime as _dt, json, os, sys, time as _time, uuid as _uuid, itertools, types

from . import env, simbroker

_REAL_DATETIME = _dt.datetime
_loop = None
_patched = False
_statelint = None
CURRENT_WORLD = None


def loop():
    global _loop
    if _loop is None or _loop.is_closed():
        _loop = asyncio.new_event_loop()
        asyncio.set_event_loop(_loop)
    return _loop


def spin(n=1):
    lp = loop()
    for _ in range(n):
        lp.run_until_complete(asyncio.sleep(0))


# ----------------------------------------------------------- module patching
class _VTime(types.ModuleType):
    """Stand-in for the `time` module as seen by the repo's modules."""

    def __init__(self):
        types.ModuleType.__init__(self, "time")

    def time(self):
        return CURRENT_WORLD.clock.time()

    def sleep(self, s):
        pass

    def __getattr__(self, name):
        return getattr(_time, name)


class _VDateTimeMeta(type(_REAL_DATETIME)):
    def __instancecheck__(cls, inst):
        return isinstance(inst, _REAL_DATETIME)


class VDateTime(_REAL_DATETIME, metaclass=_VDateTimeMeta):
    @classmethod
    def now(cls, tz=None):
        return _REAL_DATETIME.fromtimestamp(CURRENT_WORLD.clock.time(), tz)

    @classmethod
    def utcnow(cls):
        return _REAL_DATETIME.utcfromtimestamp(CURRENT_WORLD.clock.time())


class _VUuid(types.ModuleType):
    def __init__(self):
        types.ModuleType.__init__(self, "uuid")

    def uuid4(self):
        w = CURRENT_WORLD
        w.uuid_counter += 1
        return _uuid.UUID(int=(w.uuid_seed << 64) | w.uuid_counter, version=4)

    def __getattr__(self, name):
        return getattr(_uuid, name)


def install():
    """Import the repo modules on the fakes and patch time/datetime/uuid."""
    global _patched, _statelint
    if _patched:
        return
    env.setup_paths(fakes=True)
    env.silence_logging()
    loop()
    import asl_workflow_engine.state_engine as se
    import asl_workflow_engine.task_dispatcher as td
    import asl_workflow_engine.event_dispatcher as ed
    import asl_workflow_engine.state_engine_paths as sp
    import asl_workflow_engine.rest_api_asyncio as ra
    import asl_workflow_engine.rest_api as rb
    import asl_workflow_engine.amqp_0_9_1_messaging_asyncio  # noqa
    vt, vu = _VTime(), _VUuid()
    for m in (se, td, ra, rb):
        m.time = vt
    for m in (se, ed, sp, ra, td, rb):
        m.uuid = vu
    for m in (se, td, ra, rb):
        m.datetime = VDateTime
    # StateLint() costs ~100 ms to build and is stateless between validate() calls
    real_lint = ra.StateLint

    def cached_lint():
        global _statelint
        if _statelint is None:
            _statelint = real_lint()
        return _statelint
    ra.StateLint = cached_lint
    _patched = True


def set_tz(tz):
    os.environ["TZ"] = tz
    _time.tzset()


ACCOUNT = "0123456789"
ROLE_ARN = "arn:aws:iam::%s:role/service-role/MyRole" % ACCOUNT
HEADERS = {"Content-Type": "application/x-amz-json-1.0"}


def sm_arn(name, region="local", account=ACCOUNT):
    return "arn:aws:states:%s:%s:stateMachine:%s" % (region, account, name)


def fn_arn(name):
    return "arn:aws:rpcmessage:local::function:%s" % name


# -------------------------------------------------------------------- engine
class Engine:
    def __init__(self, world, instance_id, transport="asyncio", rest="asyncio"):
        self.world = world
        self.instance_id = instance_id
        self.owner = "engine:" + instance_id
        self.transport = transport
        self.rest_kind = rest           # "asyncio" (Quart, rest_api_asyncio) or "blocking" (Flask, rest_api)
        self.alive = False
        self.start()

    def config(self):
        w = self.world
        cfg = {
            "event_queue": {
                "queue_name": "asl_workflow_events",
                "instance_id": self.instance_id,
                "queue_implementation": "AMQP-0.9.1-asyncio" if self.transport == "asyncio" else "AMQP-0.9.1",
                "queue_type": w.queue_type,
                "connection_url": "amqp://localhost:5672?connection_attempts=20&retry_delay=10&heartbeat=0",
                "connection_options": "",
                "shared_event_consumer_capacity": w.capacity,
                "instance_event_consumer_capacity": w.capacity,
                "reply_to_consumer_capacity": w.reply_capacity,
                "orphaned_response_retention_ms": w.orphan_retention_ms,
            },
            "notifier": {
                "topic": "{\"node\": {\"x-declare\": {\"exchange\": \"asl_workflow_engine\", \"exchange-type\": \"topic\", \"durable\": true}}}",
                "message_ttl": w.notifier_ttl,
            },
            "state_engine": {"store_url": w.store_url, "execution_ttl": w.execution_ttl},
            "rest_api": {"host": "0.0.0.0", "port": 4584, "region": "local", "validate_asl": w.validate_asl},
            "tracer": {"implementation": "None"},
            "metrics": {"implementation": "None", "namespace": ""},
        }
        return cfg

    def start(self):
        from asl_workflow_engine.state_engine import StateEngine
        from asl_workflow_engine.event_dispatcher import EventDispatcher
        import asl_workflow_engine.rest_api_asyncio as ra
        w = self.world
        if w.store_url.startswith("redis://"):
            import asl_workflow_engine.store as store
            # every simulated process owns its own connection (client-side caching is per connection)
            if hasattr(store.RedisStore, "connection"):
                del store.RedisStore.connection
        broker = w.broker
        broker.owner_label = self.owner
        cfg = self.config()
        self.state_engine = StateEngine(cfg)
        self.event_dispatcher = EventDispatcher(self.state_engine, cfg)
        self.task_dispatcher = self.state_engine.task_dispatcher
        if self.rest_kind == "blocking":
            import asl_workflow_engine.rest_api as rb
            self.rest = rb.RestAPI(self.state_engine, self.event_dispatcher, cfg)
        else:
            self.rest = ra.RestAPI(self.state_engine, self.event_dispatcher, cfg)
        self.app = self.rest.create_app()
        self.client = self.app.test_client()
        self.exit = None
        if self.transport == "asyncio":
            async def runner():
                try:
                    await self.event_dispatcher.start_asyncio()
                except SystemExit as e:
                    self.exit = e
            self.task = loop().create_task(runner())
            spin(3)
        else:
            from pika.adapters.blocking_connection import StartConsuming
            try:
                self.event_dispatcher.start()
            except StartConsuming:
                pass
            except SystemExit as e:
                self.exit = e
        broker.owner_label = "harness"
        self.connections = [c for c in broker.connections if c.owner == self.owner]
        self.alive = self.exit is None and bool(self.connections)
        if not self.alive:
            raise RuntimeError("engine %s failed to start: %r" % (self.instance_id, self.exit))

    def crash(self):
        """The process dies: connection drops, all Python state is gone."""
        self.world.broker.crash_owner(self.owner)
        self.alive = False
        if self.transport == "asyncio":
            self.task.cancel()
            try:
                spin(2)
            except BaseException:
                pass
        if self.world.store_url.startswith("redis://") and self.state_engine is not None:
            # the process is gone: its connections close and its listener thread ends (done explicitly, garbage collection order is not deterministic)
            for st_ in (self.state_engine.asl_store, self.state_engine.executions, self.state_engine.execution_history):
                try:
                    st_.stop()
                except Exception:
                    pass
        for a in ("state_engine", "event_dispatcher", "task_dispatcher", "rest", "app", "client"):
            setattr(self, a, None)

    # ---- REST API ------------------------------------------------------
    def api_task(self, action, params, raw_body=None, headers=None):
        h = dict(HEADERS)
        h["x-amz-target"] = "AWSStepFunctions." + action
        if headers:
            h.update(headers)
        body = raw_body if raw_body is not None else json.dumps(params)
        if self.rest_kind == "blocking":
            resp = self.client.post("/", data=body, headers=h)
            data = resp.get_data()
            try:
                js = json.loads(data) if data else None
            except ValueError:
                js = data.decode("utf-8", "replace")
            fut = loop().create_future()
            fut.set_result((resp.status_code, js))
            return fut

        async def go():
            resp = await self.client.post("/", data=body, headers=h)
            data = await resp.get_data()
            try:
                js = json.loads(data) if data else None
            except ValueError:
                js = data.decode("utf-8", "replace")
            return resp.status_code, js
        return loop().create_task(go())

    def api(self, action, params=None, raw_body=None, headers=None):
        t = self.api_task(action, params or {}, raw_body, headers)
        lp = loop()
        for _ in range(200):
            if t.done():
                break
            lp.run_until_complete(asyncio.sleep(0))
        if not t.done():
            raise RuntimeError("API call %s did not complete without engine progress" % action)
        return t.result()


# ------------------------------------------------------------------- workers
class Worker:
    """A simulated rpcmessage worker listening on the queue named after the function.

    script(index, payload, props) -> list of (delay_seconds, reply_json_value_or_RAW)
    An empty list means the worker never replies.
    """

    def __init__(self, world, name, script, durable=False):
        self.world = world
        self.name = name
        self.script = script
        self.requests = []      # dict(t, index, payload, correlation_id, reply_to, expiration, message_id)
        self.replies = []
        ch = world.harness_channel
        ch.queue_declare(name, durable=durable, auto_delete=False)
        ch.basic_consume(name, self.on_request, auto_ack=True, consumer_tag="worker-" + name)

    def on_request(self, ch, method, props, body):
        w = self.world
        try:
            payload = json.loads(body.decode("utf8"))
        except Exception:
            payload = body
        idx = len(self.requests)
        rec = {"t": w.clock.now, "index": idx, "payload": payload, "correlation_id": props.correlation_id,
               "reply_to": props.reply_to, "expiration": props.expiration, "headers": props.headers,
               "redelivered": method.redelivered}
        self.requests.append(rec)
        for (delay, value) in self.script(idx, payload, props):
            self.schedule_reply(props, value, delay, idx)

    def schedule_reply(self, props, value, delay, idx):
        w = self.world

        def send():
            import pika
            body = value.raw if isinstance(value, Raw) else json.dumps(value)
            self.replies.append({"t": w.clock.now, "index": idx, "value": None if isinstance(value, Raw) else value,
                                 "correlation_id": props.correlation_id})
            w.harness_channel.basic_publish("", props.reply_to, body,
                                            pika.BasicProperties(correlation_id=props.correlation_id, content_type="application/json"))
        if delay <= 0:
            send()
        else:
            t = w.broker.call_later(None, delay, send, label="worker-reply:%s#%d" % (self.name, idx))
            t.corr = props.correlation_id


class Raw:
    def __init__(self, raw):
        self.raw = raw


# --------------------------------------------------------------------- world
class World:
    def __init__(self, seed=0, tz="UTC", tick=1e-6, store="file", queue_type="classic", validate_asl=False,
                 execution_ttl=86400, capacity=1000, reply_capacity=100, orphan_retention_ms=600000,
                 notifier_ttl=0, start=1_700_000_000.0, store_url=None):
        global CURRENT_WORLD
        install()
        set_tz(tz)
        self.tz = tz
        self.clock = simbroker.VClock(start=start, tick=tick)
        self.broker = simbroker.Broker(self.clock)
        simbroker.CURRENT = self.broker
        CURRENT_WORLD = self
        self.uuid_seed = seed & 0xFFFFFFFF
        self.uuid_counter = 0
        self.queue_type = queue_type
        self.validate_asl = validate_asl
        self.execution_ttl = execution_ttl
        self.capacity = capacity
        self.reply_capacity = reply_capacity
        self.orphan_retention_ms = orphan_retention_ms
        self.notifier_ttl = notifier_ttl
        if store_url is not None:
            self.store_url = store_url
        elif store == "redis":
            self.store_url = "redis://localhost:6379"
            import redis as fake_redis
            fake_redis.reset()
            srv = fake_redis.server_for(self.store_url)
            srv.clock = self.clock          # key expiry follows the virtual clock
            srv.auto_deliver = True         # invalidations are delivered at once here (their placement is C20's subject)
            self.redis_server = srv
        else:
            World._n = getattr(World, "_n", 0) + 1
            self.store_url = os.path.join(env.workdir(), "ASL_store_%d.json" % World._n)
            if os.path.exists(self.store_url):
                os.remove(self.store_url)
        self.engines = {}
        self.workers = {}
        self.notifications = []     # dict(t, subject, body(json), seq)
        self.api_tasks = []
        self.steps = 0
        self.trace = []             # action labels taken
        self.split_delivery = False
        self.pushed = []            # (consumer, tag, msg) pushed but not yet handled (split mode)
        import pika
        self.broker.owner_label = "harness"
        self.harness_conn = pika.BlockingConnection(pika.URLParameters("amqp://localhost:5672"))
        self.harness_channel = self.harness_conn.channel()
        self.broker.tap("asl_workflow_engine", "#", self._on_notification)
        self.after_step = []        # monitors: fn(world, label)
        self.on_notify = []         # monitors: fn(world, notification), called at the instant a notification is published
        self.engine_exceptions = [] # exceptions that escaped an engine callback
        self.eager_time = True      # offer "advance the clock" even while deliveries are enabled (models slow delivery)
        self.choice_log = []        # number of enabled actions at every step (for exhaustive schedule enumeration)

    # ------------------------------------------------------------ plumbing
    def _on_notification(self, msg):
        try:
            body = json.loads(msg.body.decode("utf8"))
        except Exception:
            body = None
        n = {"t": self.clock.now, "subject": msg.routing_key, "body": body, "seq": len(self.broker.oplog),
             "expiration": msg.props.expiration, "owner": msg.publisher, "step": self.steps}
        self.notifications.append(n)
        for fn in self.on_notify:
            fn(self, n)

    def add_engine(self, instance_id="A", transport="asyncio", rest="asyncio"):
        e = Engine(self, instance_id, transport, rest)
        self.engines[instance_id] = e
        return e

    def engine(self, instance_id=None):
        if instance_id is None:
            return next(iter(self.engines.values()))
        return self.engines[instance_id]

    def add_worker(self, name, script):
        wk = Worker(self, name, script)
        self.workers[name] = wk
        return wk

    def close(self):
        """Drop everything (no handles or tasks outlive a case)."""
        for e in self.engines.values():
            if e.alive:
                try:
                    e.crash()
                except BaseException:
                    pass
        for t in self.api_tasks:
            if not t.done():
                t.cancel()
        try:
            spin(2)
        except BaseException:
            pass
        if not self.store_url.startswith("redis://") and os.path.exists(self.store_url):
            os.remove(self.store_url)

    # ------------------------------------------------------------- actions
    HEARTBEAT = "EventDispatcher.heartbeat"

    def is_heartbeat(self, t):
        return getattr(t.callback, "__qualname__", "") == self.HEARTBEAT

    def enabled(self):
        """Canonically ordered list of enabled actions: (kind, ...)"""
        b = self.broker
        acts = []
        for (ch, msg) in list(b.pending_returns):
            acts.append(("return", ch, msg))
        if self.split_delivery:
            for item in self.pushed:
                acts.append(("handle", item))
        dl = b.deliverable()
        # oldest message first; among the consumers of one queue the least recently served first (round-robin, as RabbitMQ does)
        dl.sort(key=lambda qc: (b.queues[qc[0]].messages[0].uid, qc[1].last_served, qc[1].tag))
        for (q, c) in dl:
            acts.append(("deliver", q, c))
        for t in b.due_timers():
            acts.append(("fire", t))
        if b.next_deadline() is not None and not b.due_timers() and (self.eager_time or not acts):
            acts.append(("advance",))
        return acts

    def busy(self):
        """True while something other than heartbeats can still happen."""
        b = self.broker
        if b.pending_returns or self.pushed or b.deliverable():
            return True
        if any(not self.is_heartbeat(t) for t in b.live_timers()):
            return True
        if any(not t.done() for t in self.api_tasks):
            return True
        return False

    def label(self, act):
        k = act[0]
        if k == "deliver":
            return "deliver:%s:%s" % (act[1], act[2].channel.owner)
        if k == "fire":
            return "fire:%s" % (act[1].label or getattr(act[1].callback, "__qualname__", "?"))
        if k == "return":
            return "return:%s" % act[2].routing_key
        if k == "handle":
            return "handle:%d" % act[1][1]
        return k

    def step(self, choice=0):
        acts = self.enabled()
        if not acts:
            return None
        self.choice_log.append(len(acts))
        act = acts[choice % len(acts)] if choice else acts[0]
        return self.perform(act)

    def perform(self, act):
        b = self.broker
        label = self.label(act)
        self.steps += 1
        b.step_no = self.steps
        self.trace.append(label)
        crashed = None
        try:
            k = act[0]
            if k == "return":
                b.pending_returns.remove((act[1], act[2]))
                b.ctx = ("return", act[2].uid)
                b.log("return", act[1].owner, uid=act[2].uid, routing_key=act[2].routing_key)
                act[1]._return(act[2])
            elif k == "deliver":
                tag, msg = b.push(act[1], act[2])
                if self.split_delivery and act[2].channel.owner.startswith("engine:"):
                    self.pushed.append((act[2], tag, msg))
                else:
                    b.ctx = ("msg", msg.uid)
                    act[2].channel._deliver(act[2], tag, msg)
            elif k == "handle":
                self.pushed.remove(act[1])
                consumer, tag, msg = act[1]
                b.ctx = ("msg", msg.uid)
                consumer.channel._deliver(consumer, tag, msg)
            elif k == "fire":
                t = act[1]
                b.pop_timer(t)
                b.ctx = t.ctx
                b.log("timer_fire", t.owner.owner if t.owner is not None else "harness", timer=t.seq,
                      label=t.label or getattr(t.callback, "__qualname__", "?"))
                t.callback()
            elif k == "advance":
                b.clock.advance_to(b.next_deadline())
                b.log("advance", None)
        except simbroker.Crash as c:
            crashed = c
        except Exception as e:
            # an exception escaping an engine callback: pika/asyncio would log it and carry on
            import traceback
            tb = traceback.extract_tb(e.__traceback__)
            where = next((f for f in reversed(tb) if "/asl_workflow_engine/" in f.filename or "/statelint/" in f.filename), tb[-1])
            self.engine_exceptions.append({"type": type(e).__name__, "message": str(e)[:300], "where": "%s:%s" % (where.name, where.lineno),
                                           "label": label, "t": b.clock.now})
        finally:
            b.ctx = None
        if crashed is not None:
            owner = str(crashed).split(" ")[2]
            self.crash_engine(owner.split(":", 1)[1])
            label += "!crash"
        if self.api_tasks:
            spin(2)
        for fn in self.after_step:
            fn(self, label)
        return label

    def crash_engine(self, instance_id):
        e = self.engines[instance_id]
        self.pushed = [p for p in self.pushed if p[0].channel.owner != e.owner]
        e.crash()

    def restart_engine(self, instance_id):
        e = self.engines[instance_id]
        e.start()
        return e

    def run(self, schedule=(), max_steps=20000, until=None):
        """Run to quiescence; step i takes enabled[schedule[i] % n] (canonical when exhausted)."""
        i = 0
        while self.busy():
            if until is not None and until(self):
                return "until"
            if self.steps >= max_steps:
                return "max_steps"
            c = schedule[i] if i < len(schedule) else 0
            i += 1
            if self.step(c) is None:
                break
        return "quiescent"

    def advance_holding_deliveries(self, seconds):
        """Let virtual time pass while the consumers are slow: timers fire as they fall due, queued messages stay queued."""
        target = self.clock.now + seconds
        guard = 0
        while True:
            guard += 1
            if guard > 1_000_000:
                raise RuntimeError("advance did not converge")
            b = self.broker
            due = b.due_timers()
            if due:
                self.perform(("fire", due[0]))
                continue
            nd = b.next_deadline()
            if nd is None or nd > target:
                b.clock.advance_to(target)
                return
            b.clock.advance_to(nd)

    def advance(self, seconds):
        """Let virtual time pass (firing whatever falls due, canonically)."""
        target = self.clock.now + seconds
        guard = 0
        while True:
            guard += 1
            if guard > 1_000_000:
                raise RuntimeError("advance did not converge")
            b = self.broker
            if b.pending_returns or b.deliverable() or b.due_timers():
                self.step(0)
                continue
            nd = b.next_deadline()
            if nd is not None and nd <= target:
                self.step(0)  # advance to it
                continue
            break
        self.clock.advance_to(target)

    # ------------------------------------------------------------ helpers
    def create_state_machine(self, name, definition, type_="STANDARD", engine=None, role=ROLE_ARN, **extra):
        e = self.engine(engine)
        params = {"name": name, "definition": definition if isinstance(definition, str) else json.dumps(definition),
                  "roleArn": role, "type": type_}
        params.update(extra)
        return e.api("CreateStateMachine", params)

    def start_execution(self, sm, input_value=None, name=None, engine=None, raw_input=None):
        e = self.engine(engine)
        params = {"stateMachineArn": sm}
        if raw_input is not None:
            params["input"] = raw_input
        elif input_value is not NOINPUT:
            params["input"] = json.dumps(input_value)
        if name is not None:
            params["name"] = name
        return e.api("StartExecution", params)

    def describe_execution(self, arn, engine=None):
        return self.engine(engine).api("DescribeExecution", {"executionArn": arn})

    def history(self, arn, engine=None, reverse=False):
        p = {"executionArn": arn}
        if reverse:
            p["reverseOrder"] = True
        return self.engine(engine).api("GetExecutionHistory", p)

    def notifications_for(self, execution_arn):
        out = []
        for n in self.notifications:
            body = n["body"] or {}
            if (body.get("detail") or {}).get("executionArn") == execution_arn:
                out.append(n)
        return out

    def terminal(self, execution_arn):
        for n in self.notifications_for(execution_arn):
            st = n["body"]["detail"]["status"]
            if st != "RUNNING":
                return n["body"]["detail"]
        return None


class _NoInput:
    pass


NOINPUT = _NoInput()
