"""
Online/offline monitors attached to a World.  Each monitor has
    after_step(world, label)      -- called after every scheduler step
    finish(world) -> [(bucket, detail)]
and reports only clauses of its own property.
"""
import copy, json

TERMINAL = ("SUCCEEDED", "FAILED", "TIMED_OUT", "ABORTED")
RECORD_FIELDS = ("status", "output", "error", "cause", "stopDate")


def _detail(n):
    return (n.get("body") or {}).get("detail") or {}


def engine_record(world, arn):
    """The stored DescribeExecution record as seen through any live engine (None if absent)."""
    for e in world.engines.values():
        if e.alive and e.state_engine is not None:
            try:
                rec = e.state_engine.executions.get(arn)
            except Exception:
                rec = None
            if rec is not None:
                return dict(rec)
    return None


def engine_history(world, arn):
    for e in world.engines.values():
        if e.alive and e.state_engine is not None:
            try:
                h = e.state_engine.execution_history.get(arn)
            except Exception:
                h = None
            if h is not None:
                return [dict(x) for x in h]
    return None


class Monitor:
    name = "monitor"

    def __init__(self):
        self.fails = []
        self._seen = set()

    def fail(self, bucket, detail):
        if bucket not in self._seen or len(self.fails) < 40:
            self.fails.append((bucket, str(detail)[:1500]))
        self._seen.add(bucket)

    def after_step(self, world, label):
        pass

    def finish(self, world):
        return self.fails


# ------------------------------------------------------------------------ C02
class LifecycleMonitor(Monitor):
    """RUNNING then exactly one terminal notification; terminal record immutable and well-formed;
    every started execution terminal at quiescence."""
    name = "lifecycle"

    def __init__(self, started, standard=lambda arn: True):
        Monitor.__init__(self)
        self.started = started            # list of execution ARNs (may grow)
        self.standard = standard
        self.frozen = {}                  # arn -> record snapshot at first sight after terminal
        self.n_seen = 0

    def after_step(self, world, label):
        notes = world.notifications
        for n in notes[self.n_seen:]:
            d = _detail(n)
            arn = d.get("executionArn")
            seq = [_detail(x).get("status") for x in notes[: notes.index(n) + 1] if _detail(x).get("executionArn") == arn]
            if len(seq) == 1 and seq[0] != "RUNNING":
                self.fail("first-notification-not-RUNNING", "%s: %r" % (arn, seq))
            if seq.count("RUNNING") > 1:
                self.fail("RUNNING-notified-twice", "%s: %r (step %s)" % (arn, seq, label))
            if len([s for s in seq if s in TERMINAL]) > 1:
                self.fail("ended-more-than-once", "%s: %r (step %s)" % (arn, seq, label))
            if seq[-1] == "RUNNING" and any(s in TERMINAL for s in seq[:-1]):
                self.fail("RUNNING-after-terminal", "%s: %r" % (arn, seq))
        self.n_seen = len(notes)
        for arn in list(self.started):
            if not self.standard(arn):
                continue
            rec = engine_record(world, arn)
            if rec is None:
                continue
            st = rec.get("status")
            if st in TERMINAL:
                snap = {k: rec.get(k) for k in RECORD_FIELDS}
                if arn not in self.frozen:
                    self.frozen[arn] = snap
                    self.check_wellformed(arn, rec)
                elif snap != self.frozen[arn]:
                    self.fail("terminal-record-changed", "%s: %r -> %r (step %s)" % (arn, self.frozen[arn], snap, label))
                    self.frozen[arn] = snap
            else:
                if arn in self.frozen:
                    self.fail("terminal-record-reverted", "%s went back to %r after %r (step %s)" % (arn, st, self.frozen[arn], label))
                if rec.get("stopDate") is not None:
                    self.fail("stopDate-set-while-RUNNING", "%s: %r" % (arn, rec))

    def check_wellformed(self, arn, rec):
        st = rec.get("status")
        if rec.get("stopDate") is None:
            self.fail("terminal-without-stopDate", "%s: %r" % (arn, rec))
        if st == "SUCCEEDED":
            if rec.get("output") is None:
                self.fail("SUCCEEDED-without-output", "%s: %r" % (arn, rec))
            if rec.get("error") is not None or rec.get("cause") is not None:
                self.fail("SUCCEEDED-with-error", "%s: %r" % (arn, rec))
        elif st == "FAILED":
            if rec.get("output") is not None:
                self.fail("FAILED-with-output", "%s: %r" % (arn, rec))
            if not rec.get("error"):
                self.fail("FAILED-without-error", "%s: %r" % (arn, rec))

    def finish(self, world):
        for arn in self.started:
            seq = [_detail(n).get("status") for n in world.notifications_for(arn)]
            if not seq:
                self.fail("never-announced-RUNNING", "%s produced no notification" % arn)
            elif not any(s in TERMINAL for s in seq):
                self.fail("never-terminal", "%s: notifications %r at quiescence" % (arn, seq))
            if self.standard(arn):
                rec = engine_record(world, arn)
                if rec is not None and any(s in TERMINAL for s in seq) and rec.get("status") not in TERMINAL:
                    self.fail("record-not-terminal-at-quiescence", "%s: record %r notifications %r" % (arn, rec.get("status"), seq))
        return self.fails


# ------------------------------------------------------------------------ C03
class AckMonitor(Monitor):
    """Exactly-once acknowledgement, ack-after-consequences, carrier invariant, drain."""
    name = "ack"

    def __init__(self, started):
        Monitor.__init__(self)
        self.started = started

    @staticmethod
    def _arn_of_body(body):
        try:
            j = json.loads(body.decode("utf8"))
            return ((j.get("context") or {}).get("Execution") or {}).get("Id")
        except Exception:
            return None

    def finish(self, world):
        b = world.broker
        log = b.oplog
        for (t, kind, detail) in b.protocol_errors:
            self.fail("protocol-error:%s" % kind, detail)
        # index messages
        msg = {}            # uid -> dict(arn, message_id, queues, correlation_id)
        for o in log:
            if o["kind"] == "publish":
                msg[o["uid"]] = {"arn": self._arn_of_body(o["body"]) if o["exchange"] == "" and any(q.startswith("asl_workflow_events") for q in o["queues"]) else None,
                                 "message_id": o.get("message_id"), "queues": o["queues"], "correlation_id": o.get("correlation_id"),
                                 "exchange": o["exchange"], "routing_key": o["routing_key"], "owner": o["owner"]}
        by_message_id = {m["message_id"]: u for u, m in msg.items() if m["message_id"] is not None and m["arn"] is not None or (m["message_id"] and any(q.startswith("asl_workflow_events") for q in m["queues"]))}
        # (a) deliveries to engine consumers acked exactly once
        delivered = {}      # (channel, tag) -> uid
        acks = {}
        for o in log:
            if o["kind"] == "deliver" and str(o["owner"]).startswith("engine:"):
                delivered[(o["channel"], o["delivery_tag"])] = o["uid"]
            elif o["kind"] == "ack":
                key = (o["channel"], o["delivery_tag"])
                acks[key] = acks.get(key, 0) + 1
            elif o["kind"] == "ack_unknown":
                self.fail("ack-of-unknown-or-already-acked-tag", "%r" % {k: o[k] for k in ("owner", "delivery_tag", "t")})
        closed = {o["channel"] for o in log if o["kind"] == "channel_closed"}
        for key, uid in delivered.items():
            n = acks.get(key, 0)
            if n == 0 and key[0] not in closed:
                m = msg.get(uid, {})
                self.fail("delivery-never-acknowledged:%s" % ("event" if m.get("arn") or any(q.startswith("asl_workflow_events") for q in m.get("queues", [])) else "reply"),
                          "uid %s queue %s arn %s still unacknowledged at quiescence" % (uid, m.get("queues"), m.get("arn")))
            elif n > 1:
                self.fail("delivery-acked-twice", "uid %s acked %d times" % (uid, n))
        # (b) ordering: after ack(X) no publish attributable to X's handling
        def root_of(ctx):
            if not ctx or ctx[0] != "msg":
                return None
            u = ctx[1]
            m = msg.get(u)
            if m is None:
                return None
            if any(q.startswith("asl_workflow_reply_to") for q in m["queues"]):
                cid = m.get("correlation_id") or ""
                for suf in (".invoke", ".waitForTaskToken"):
                    if cid.endswith(suf):
                        cid = cid[: -len(suf)]
                return by_message_id.get(cid)
            return u
        acked_at = {}
        for o in log:
            if o["kind"] == "ack":
                acked_at.setdefault(o["uid"], o["seq"])
            elif o["kind"] == "publish" and str(o["owner"]).startswith("engine:"):
                r = root_of(o["ctx"])
                if r is not None and r in acked_at and acked_at[r] < o["seq"]:
                    what = "notification" if o["exchange"] == "asl_workflow_engine" else ("event" if o["exchange"] == "" and any(q.startswith("asl_workflow_events") for q in o["queues"]) else "other")
                    if what != "other":
                        self.fail("publish-after-ack:%s" % what, "message uid %s (arn %s) was acknowledged at op %d but its handling published a %s at op %d (%s)" % (
                            r, msg[r].get("arn"), acked_at[r], what, o["seq"], o["routing_key"]))
        # (d) drain
        for e in world.engines.values():
            if not e.alive:
                continue
            n = b.total_unacked(e.owner)
            if n:
                self.fail("drain:broker-unacked", "%d deliveries of %s unacknowledged at quiescence" % (n, e.owner))
            ed, td, se = e.event_dispatcher, e.task_dispatcher, e.state_engine
            for name, d in (("unacknowledged_messages", ed.unacknowledged_messages), ("branch_metadata", se.branch_metadata),
                            ("pending_requests", td.pending_requests), ("cancellers", td.cancellers), ("orphaned_responses", td.orphaned_responses)):
                if len(d):
                    self.fail("drain:%s" % name, "%s holds %d entries at quiescence: %r" % (name, len(d), list(d)[:3]))
        for t in b.live_timers():
            if not world.is_heartbeat(t) and t.owner is not None:      # harness timers (scripted worker replies) are not the engine's
                self.fail("drain:armed-timer", "timer %s still armed at quiescence" % (t.label or getattr(t.callback, "__qualname__", "?")))
        if b.queue_depths():
            self.fail("drain:queued-messages", "%r" % b.queue_depths())
        return self.fails

    # (c) carrier invariant, evaluated between handler invocations (after every scheduler step)
    def after_step(self, world, label):
        b = world.broker
        log = b.oplog
        if not hasattr(self, "_pos"):
            self._pos, self._arn, self._mid, self._corr, self._live, self._reported = 0, {}, {}, {}, {}, set()
        for o in log[self._pos:]:
            if o["kind"] == "publish":
                if o["exchange"] == "" and any(q.startswith("asl_workflow_events") for q in o["queues"]):
                    self._arn[o["uid"]] = self._arn_of_body(o["body"])
                    if o.get("message_id"):
                        self._mid[o["message_id"]] = o["uid"]
                elif o["exchange"] == "asl_workflow_engine":
                    try:
                        d = json.loads(o["body"].decode("utf8"))["detail"]
                    except Exception:
                        d = {}
                    if d.get("status") == "RUNNING":
                        self._live[d.get("executionArn")] = True
                    elif d.get("status") in TERMINAL:
                        self._live.pop(d.get("executionArn"), None)
                elif o.get("correlation_id"):
                    self._corr[o["uid"]] = o["correlation_id"]
        self._pos = len(log)
        if not self._live:
            return

        def arn_of_corr(cid):
            cid = cid or ""
            for suf in (".invoke", ".waitForTaskToken"):
                if cid.endswith(suf):
                    cid = cid[: -len(suf)]
            u = self._mid.get(cid)
            return self._arn.get(u) if u is not None else None

        def arn_of_uid(u):
            if u in self._arn:
                return self._arn[u]
            if u in self._corr:
                return arn_of_corr(self._corr[u])
            return None
        carried = set()
        for q in b.queues.values():
            for m in q.messages:
                a = arn_of_uid(m.uid)
                if a:
                    carried.add(a)
        for conn in b.connections:
            for ch in conn.channels:
                for (q, m, c) in ch.unacked.values():
                    a = arn_of_uid(m.uid)
                    if a:
                        carried.add(a)
        for (c, tag, m) in world.pushed:
            a = arn_of_uid(m.uid)
            if a:
                carried.add(a)
        for t in b.live_timers():
            if world.is_heartbeat(t):
                continue
            if t.owner is None:
                lab = t.label or ""
                # a scripted worker reply that is still to be published
                cid = getattr(t, "corr", None)
                if cid:
                    a = arn_of_corr(cid)
                    if a:
                        carried.add(a)
                continue
            if t.ctx and t.ctx[0] == "msg":
                a = arn_of_uid(t.ctx[1])
                if a:
                    carried.add(a)
        for (ch, m) in b.pending_returns:
            a = arn_of_uid(m.uid)
            if a:
                carried.add(a)
        for arn in self._live:
            if arn not in carried and arn not in self._reported and arn in self.started:
                self._reported.add(arn)
                self.fail("no-carrier-while-RUNNING", "after step %r execution %s is RUNNING (announced, not terminal) but no queued/unacked event, outstanding request, pending reply or armed timer carries it" % (label, arn))

# ------------------------------------------------------------------------ C09
class HistoryMonitor(Monitor):
    name = "history"

    def __init__(self, started, standard=lambda arn: True):
        Monitor.__init__(self)
        self.started = started
        self.standard = standard
        self.prev = {}
        self.closed = {}

    def after_step(self, world, label):
        for arn in self.started:
            h = engine_history(world, arn)
            if not self.standard(arn):
                if h:
                    self.fail("express-has-history", "%s (EXPRESS) stores %d history events" % (arn, len(h)))
                if engine_record(world, arn) is not None:
                    self.fail("express-has-record", "%s (EXPRESS) has a stored execution record" % arn)
                continue
            if h is None:
                continue
            self.check_shape(arn, h, label)
            p = self.prev.get(arn, [])
            if len(h) < len(p) or h[: len(p)] != p:
                self.fail("history-not-append-only", "%s: history changed other than by appending (step %s): had %d events, now %d" % (arn, label, len(p), len(h)))
            if arn in self.closed and len(h) > self.closed[arn]:
                self.fail("appended-after-terminal-event", "%s: %s appended after the execution's terminal event (step %s)" % (arn, [e["type"] for e in h[self.closed[arn]:]][:4], label))
                self.closed[arn] = len(h)
            ends = [i for i, e in enumerate(h) if e.get("type") in ("ExecutionSucceeded", "ExecutionFailed", "ExecutionTimedOut", "ExecutionAborted")]
            if ends and arn not in self.closed:
                self.closed[arn] = len(h)
                if ends[0] != len(h) - 1:
                    self.fail("terminal-event-not-last", "%s: %r" % (arn, [e["type"] for e in h[ends[0]:]]))
            self.prev[arn] = h

    def check_shape(self, arn, h, label):
        for i, e in enumerate(h):
            if e.get("id") != i + 1 or e.get("previousEventId") != i:
                self.fail("history-numbering", "%s: event at position %d has id=%r previousEventId=%r" % (arn, i + 1, e.get("id"), e.get("previousEventId")))
                break
        ts = [e.get("timestamp") for e in h]
        if any(a is None or b is None or b < a for a, b in zip(ts, ts[1:])):
            self.fail("history-timestamps-decrease", "%s: %r" % (arn, ts[:12]))
        if h and h[0].get("type") != "ExecutionStarted":
            self.fail("history-does-not-start-with-ExecutionStarted", "%s: %r" % (arn, [e["type"] for e in h[:3]]))
        ends = [e for e in h if e.get("type") in ("ExecutionSucceeded", "ExecutionFailed")]
        if len(ends) > 1:
            self.fail("several-terminal-events", "%s: %r" % (arn, [e["type"] for e in ends]))

    def finish(self, world):
        for arn in self.started:
            if not self.standard(arn):
                continue
            h = engine_history(world, arn)
            rec = engine_record(world, arn)
            if h is None or rec is None:
                continue
            if rec.get("status") in TERMINAL:
                last = h[-1] if h else {}
                want = {"SUCCEEDED": "ExecutionSucceeded", "FAILED": "ExecutionFailed"}.get(rec["status"])
                if last.get("type") != want:
                    self.fail("last-event-disagrees-with-record", "%s: record %s, last history event %r" % (arn, rec["status"], last.get("type")))
                elif want == "ExecutionSucceeded" and last["executionSucceededEventDetails"].get("output") != rec.get("output"):
                    self.fail("last-event-output-disagrees", "%s: %r vs record %r" % (arn, last, rec.get("output")))
                elif want == "ExecutionFailed" and last["executionFailedEventDetails"].get("error") != rec.get("error"):
                    self.fail("last-event-error-disagrees", "%s: %r vs record %r" % (arn, last, rec.get("error")))
            if h and h[0].get("type") == "ExecutionStarted":
                if h[0]["executionStartedEventDetails"].get("input") != rec.get("input") and rec.get("input") is not None:
                    self.fail("ExecutionStarted-input-disagrees", "%s: %r vs record input %r" % (arn, h[0], rec.get("input")))
        return self.fails


# ------------------------------------------------------------------------ C11
CW_KEYS = {"version", "id", "detail-type", "source", "account", "time", "region", "resources", "detail"}


class SurfaceMonitor(Monitor):
    name = "surface"

    def __init__(self, started, standard=lambda arn: True, api_engines=None):
        Monitor.__init__(self)
        self.started = started
        self.standard = standard
        self.n_seen = 0
        self.api_engines = api_engines     # list of instance ids to read through
        self.changes = {}

    def after_step(self, world, label):
        notes = world.notifications
        for n in notes[self.n_seen:]:
            body = n.get("body") or {}
            d = body.get("detail") or {}
            arn = d.get("executionArn")
            if set(body.keys()) != CW_KEYS:
                self.fail("notification-shape", "keys %r" % sorted(body.keys()))
            if body.get("detail-type") != "Step Functions Execution Status Change" or body.get("source") != "aws.states" or body.get("resources") != [arn]:
                self.fail("notification-envelope", "%r" % {k: body.get(k) for k in ("detail-type", "source", "resources")})
            if n["subject"] != "%s.%s" % (d.get("stateMachineArn"), d.get("status")):
                self.fail("notification-subject", "subject %r for %r/%r" % (n["subject"], d.get("stateMachineArn"), d.get("status")))
            # every notification of an execution tells the same story about what was started: input, name, start date, state machine (also for EXPRESS executions,
            # whose only surface the notifications are)
            if not hasattr(self, "first_note"):
                self.first_note = {}
            if d.get("status") == "RUNNING":
                self.first_note[arn] = d          # (a name used again starts a new story)
            first = self.first_note.setdefault(arn, d)
            for f in ("input", "name", "stateMachineArn"):
                if first.get(f) != d.get(f):
                    self.fail("notification-%s-changed" % f, "%s: the %s notification has %s=%r, the %s notification had %r" % (arn, d.get("status"), f, d.get(f), first.get("status"), first.get(f)))
            key = (arn, d.get("status"))
            self.changes[key] = self.changes.get(key, 0) + 1
            if self.changes[key] > 1:
                self.fail("status-change-published-twice", "%r published %d times" % (key, self.changes[key]))
            for f in ("startDate", "stopDate"):
                v = d.get(f)
                if v is not None and not (isinstance(v, int) and not isinstance(v, bool)):
                    self.fail("notification-date-not-integer-ms", "%s=%r" % (f, v))
            # only the last notification of this step for the execution can be compared with the record as it is now
            is_last = not any(_detail(x).get("executionArn") == arn for x in notes[notes.index(n) + 1:])
            if self.standard(arn) and is_last:
                rec = engine_record(world, arn)
                if rec is not None:
                    # after the publish the stored record must still hold epoch seconds
                    for f in ("startDate", "stopDate"):
                        rv, nv = rec.get(f), d.get(f)
                        if rv is not None and nv is not None and nv != int(rv * 1000):
                            self.fail("notification-ms-vs-record-seconds", "%s: notification %r, stored %r (expected int(stored*1000))" % (f, nv, rv))
                    for f in ("status", "input", "output", "error", "cause", "name", "stateMachineArn"):
                        if rec.get(f) != d.get(f):
                            self.fail("notification-vs-record:%s" % f, "%s: notification %r, record %r" % (arn, d.get(f), rec.get(f)))
        self.n_seen = len(notes)
        for arn in self.started:
            if not self.standard(arn):
                continue
            rec = engine_record(world, arn)
            if rec is None:
                continue
            mine = [x for x in notes if _detail(x).get("executionArn") == arn]
            if mine:
                d = _detail(mine[-1])
                for f in ("status", "output", "error"):
                    if rec.get(f) != d.get(f):
                        self.fail("record-vs-latest-notification:%s" % f, "%s: record %r latest notification %r (step %s)" % (arn, rec.get(f), d.get(f), label))
            h = engine_history(world, arn)
            if h:
                last = h[-1]
                if rec.get("status") == "SUCCEEDED" and not (last.get("type") == "ExecutionSucceeded" and last["executionSucceededEventDetails"].get("output") == rec.get("output")):
                    self.fail("record-vs-history", "%s: SUCCEEDED record but last history event %r" % (arn, last.get("type")))
                if rec.get("status") == "FAILED" and not (last.get("type") == "ExecutionFailed" and last["executionFailedEventDetails"].get("error") == rec.get("error")):
                    self.fail("record-vs-history", "%s: FAILED record but last history event %r" % (arn, last.get("type")))
                if rec.get("status") == "RUNNING" and last.get("type") in ("ExecutionSucceeded", "ExecutionFailed"):
                    self.fail("record-vs-history", "%s: RUNNING record but history ends with %r" % (arn, last.get("type")))

    def at_publish(self, world, n):
        """Called at the very instant the notification is published: the stored record must already tell the same story."""
        d = _detail(n)
        arn = d.get("executionArn")
        if not self.standard(arn):
            return
        rec = engine_record(world, arn)
        if rec is None:
            self.fail("notification-without-record", "%s: %s published but no record is stored" % (arn, d.get("status")))
            return
        for f in ("status", "output", "error"):
            if rec.get(f) != d.get(f):
                self.fail("record-lags-notification:%s" % f, "%s: at the moment '%s' is published the stored record has %s=%r (notification: %r)" % (arn, d.get("status"), f, rec.get(f), d.get(f)))

    def finish(self, world):
        # the API views (DescribeExecution / ListExecutions / GetExecutionHistory) through every instance agree with the store
        ids = self.api_engines or [i for i, e in world.engines.items() if e.alive]
        for arn in self.started:
            if not self.standard(arn):
                continue
            rec = engine_record(world, arn)
            views = []
            for i in ids:
                st, r = world.describe_execution(arn, engine=i)
                views.append((i, st, r))
                if rec is not None and (st != 200 or any(r.get(f) != rec.get(f) for f in ("status", "input", "output", "error", "cause", "startDate", "stopDate", "name", "stateMachineArn"))):
                    self.fail("DescribeExecution-vs-store", "via %s: %r %r, store %r" % (i, st, r, rec))
                if rec is not None and st == 200:
                    st2, lst = world.engine(i).api("ListExecutions", {"stateMachineArn": rec["stateMachineArn"]})
                    rows = [x for x in (lst or {}).get("executions", []) if x.get("executionArn") == arn] if st2 == 200 else []
                    if len(rows) != 1 or any(rows[0].get(f) != rec.get(f) for f in ("status", "name", "startDate", "stopDate", "stateMachineArn")):
                        self.fail("ListExecutions-vs-store", "via %s: rows %r, store %r" % (i, rows, rec))
                    st3, hist = world.history(arn, engine=i)
                    eh = engine_history(world, arn)
                    if eh is not None and (st3 != 200 or hist.get("events") != json.loads(json.dumps(eh))):
                        self.fail("GetExecutionHistory-vs-store", "via %s: status %r, %d events vs %d stored" % (i, st3, len((hist or {}).get("events", [])) if isinstance(hist, dict) else -1, len(eh)))
            if len({json.dumps(v[2], sort_keys=True) for v in views}) > 1:
                self.fail("instances-disagree", "%r" % views)
        return self.fails
