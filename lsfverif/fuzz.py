"""
Coverage-guided campaigns (atheris / libFuzzer) as an additional generator behind the
same oracles.

A check module that wants one defines

    fuzz_setup()                 imports the code under test (called inside
                                 atheris.instrument_imports so that the repo's modules are
                                 instrumented) and returns a dict of options:
                                 {"dict": [tokens...], "corpus": [bytes...], "max_len": n}
    fuzz_one(data: bytes)  ->    None (input not in the domain: discarded and counted) or
                                 {"case": json-able, "classes": [...], "nontrivial": bool,
                                  "fails": [(bucket, detail), ...]}

`campaign(camp, modname, runs, shards)` runs `shards` child processes
(`python -m lsfverif.fuzz <modname> <out> <seed> <runs>`), each with its own fresh
corpus directory and libFuzzer seed `camp.seed*1000+k`, and merges their exported
campaigns.  The oracle lives inside `fuzz_one`; a failure is *recorded* (bucketed, the
smallest case kept) and the campaign continues, so that one shallow defect does not hide
what lies behind it.  libFuzzer's `-seed` pins a campaign only approximately: the saved
failing case (a JSON value, replayed by `./check <ID> --replay`) is the reproducible unit.

atheris is installed by MANIFEST.setup_cmd into /verif/.deps; when it cannot be imported
the campaign is reported as a harness error (exit 2), never as a pass.
"""
import os, sys, json, time, subprocess, shutil, tempfile

from . import env

DEPS = os.path.join(env.VERIF_ROOT, ".deps")
if not os.path.isdir(DEPS) and os.path.isdir("/verif/.deps"):
    DEPS = "/verif/.deps"       # a snapshot of the committed files (vp run) has no .deps of its own


def available():
    if DEPS not in sys.path:
        sys.path.append(DEPS)
    try:
        import atheris  # noqa
        return True
    except Exception:
        return False


def campaign(camp, modname, runs, shards, label="fuzz"):
    if not available():
        camp.harness_error("atheris cannot be imported (MANIFEST.setup_cmd installs it into /verif/.deps)")
        return
    root = os.path.join(env.workdir(), "fuzz-%s" % modname.rsplit(".", 1)[-1])
    os.makedirs(root, exist_ok=True)
    procs = []
    for k in range(shards):
        out = os.path.join(root, "out%d.json" % k)
        cdir = os.path.join(root, "corpus%d" % k)
        os.makedirs(cdir, exist_ok=True)
        e = dict(os.environ)
        e["PYTHONPATH"] = os.pathsep.join([env.VERIF_ROOT, DEPS] + ([e["PYTHONPATH"]] if e.get("PYTHONPATH") else []))
        e["VERIF_TIER"] = camp.tier
        seed = camp.seed * 1000 + k + 1          # libFuzzer: 0 means random
        log = open(os.path.join(root, "log%d.txt" % k), "w")
        p = subprocess.Popen([sys.executable, "-m", "lsfverif.fuzz", modname, out, str(seed), str(runs), cdir],
                             env=e, stdout=log, stderr=subprocess.STDOUT, cwd=env.VERIF_ROOT)
        procs.append((k, p, out, log))
    total = 0
    for k, p, out, log in procs:
        p.wait()
        log.close()
        try:
            with open(out) as fp:
                d = json.load(fp)
        except Exception as ex:
            tail = ""
            try:
                tail = open(os.path.join(root, "log%d.txt" % k)).read()[-600:]
            except Exception:
                pass
            camp.harness_error("fuzz shard %d of %s produced no result (%r, rc=%s): %s" % (k, modname, ex, p.returncode, tail))
            continue
        if p.returncode != 0:
            # libFuzzer stopped the shard (its crash / out-of-memory / time-out watchdogs): what ran is kept, the stop itself is a harness error (exit 2), never a pass
            arts = sorted(f for f in os.listdir(root) if f.startswith("art"))
            tail = ""
            try:
                tail = open(os.path.join(root, "log%d.txt" % k)).read()[-600:]
            except Exception:
                pass
            keep = os.path.join(env.VERIF_ROOT, "out", "fuzz-artifacts")
            os.makedirs(keep, exist_ok=True)
            for f in arts:
                shutil.copy(os.path.join(root, f), os.path.join(keep, f))
            camp.harness_error("fuzz shard %d of %s ended with rc=%s after %d executions (artifacts kept in out/fuzz-artifacts: %s): %s" % (k, modname, p.returncode, d.get("execs", 0), arts, tail))
        n = d["evaluations"]
        total += n
        d["classes"] = dict(d["classes"])
        d["classes"]["%s-executions" % label] = d.pop("execs", n)
        d["classes"]["%s-discarded-not-in-domain" % label] = d.pop("discarded", 0)
        cov = d.pop("cov", None)
        camp.merge(d)
        if cov:
            camp.extra.setdefault("fuzz_edges_covered", {})["shard%d" % k] = cov
    camp.extra["fuzz_runs_per_shard"] = runs
    camp.extra["fuzz_shards"] = shards
    shutil.rmtree(root, ignore_errors=True)


# ------------------------------------------------------------------- child side
def _child(modname, out, seed, runs, cdir):
    import importlib
    sys.path.append(DEPS)
    import atheris
    from .runner import Campaign
    os.environ["VERIF_SEED"] = str(seed)
    env.SEED = seed
    env.setup_paths(fakes=True)
    with atheris.instrument_imports(include=["asl_workflow_engine", "statelint"], enable_loader_override=False):
        mod = importlib.import_module(modname)
        opts = mod.fuzz_setup() or {}
    camp = Campaign(mod.PID, rule="", tier=env.TIER, seed=seed)
    camp.findings = []
    state = {"execs": 0, "discarded": 0, "last": time.time(), "dirty": False}

    def dump():
        d = camp.export()
        d["execs"] = state["execs"]
        d["discarded"] = state["discarded"]
        tmp = out + ".tmp"
        with open(tmp, "w") as fp:
            json.dump(d, fp, default=repr)
        os.replace(tmp, out)
        state["last"] = time.time()
        state["dirty"] = False

    def one(data):
        state["execs"] += 1
        try:
            r = mod.fuzz_one(data)
        except Exception as ex:
            import traceback
            camp.harness_error("fuzz_one crashed on %r: %r %s" % (data[:200], ex, traceback.format_exc()[-600:]))
            r = None
            state["dirty"] = True
        if r is None:
            state["discarded"] += 1
        else:
            camp.case(r["case"], nontrivial=r.get("nontrivial", False), classes=r.get("classes", ()))
            for b, det in r.get("fails", ()):
                camp.fail(b, r["case"], det)
                state["dirty"] = True
        n = state["execs"]
        if state["dirty"] or n >= runs - 1 or n % 2000 == 0 or time.time() - state["last"] > 2.0:
            dump()

    for i, s in enumerate(opts.get("corpus", [])):
        with open(os.path.join(cdir, "seed%03d" % i), "wb") as fp:
            fp.write(s if isinstance(s, bytes) else s.encode())
    argv = [sys.argv[0], "-runs=%d" % runs, "-seed=%d" % seed, "-max_len=%d" % opts.get("max_len", 512), "-print_final_stats=0", "-verbosity=0"]
    # artifacts (crash-, oom-, slow-unit- files) go next to the shard's result, never into the working directory
    argv += ["-artifact_prefix=" + os.path.join(os.path.dirname(out), "art%d-" % os.getpid()), "-report_slow_units=600"]
    if opts.get("memory_cap_gib"):
        # the address space is bounded instead of libFuzzer's resident-set watchdog: an input that asks for an enormous object then raises
        # MemoryError inside the target, where the oracle judges it like any other exception, and the campaign goes on
        env.cap_memory(opts["memory_cap_gib"])
        argv += ["-rss_limit_mb=0", "-malloc_limit_mb=0"]
    toks = opts.get("dict")
    if toks:
        dpath = os.path.join(os.path.dirname(out), "dict-%d.txt" % os.getpid())
        with open(dpath, "w") as fp:
            for t in toks:
                fp.write('"%s"\n' % "".join(ch if 32 <= ord(ch) < 127 and ch not in '"\\' else "\\x%02x" % b for ch in t for b in ch.encode("utf-8")))
        argv.append("-dict=" + dpath)
    argv.append(cdir)
    dump()
    if opts.get("json_mutator"):
        mut = JsonMutator(atheris, toks or [], opts.get("leaves", []))
        atheris.Setup(argv, one, custom_mutator=mut)
    else:
        atheris.Setup(argv, one)
    atheris.Fuzz()


class JsonMutator:
    """Structure-aware libFuzzer mutator: the input is JSON text; a mutation edits the parsed tree (delete / replace / rename / insert / copy / wrap / string bytes) and
    re-serialises it, so that every input stays inside the domain 'any JSON value'.  All choices come from a PRNG seeded with the value libFuzzer hands in."""
    def __init__(self, atheris, tokens, leaves):
        self.atheris = atheris
        self.tokens = tokens or ["a"]
        self.leaves = list(leaves) + [None, True, False, 0, 1, -1, 1.5, 1e9, "", "a", [], {}, [1], {"a": 1}]

    def nodes(self, v, path, out):
        out.append(path)
        if isinstance(v, dict):
            for k in v:
                self.nodes(v[k], path + (k,), out)
        elif isinstance(v, list):
            for i in range(len(v)):
                self.nodes(v[i], path + (i,), out)

    @staticmethod
    def get(v, path):
        for k in path:
            v = v[k]
        return v

    def __call__(self, data, max_size, seed):
        import random, copy
        r = random.Random(seed)
        try:
            v = json.loads(data.decode("utf-8"))
        except Exception:
            v = r.choice(self.leaves)
        for _ in range(r.choice([1, 1, 1, 2, 3])):
            ns = []
            self.nodes(v, (), ns)
            path = r.choice(ns)
            op = r.choice(["delete", "replace", "replace-token", "rename", "insert", "copy", "wrap", "bytes", "number", "swap"])
            if not path:
                if op in ("delete", "rename", "swap"):
                    op = "insert"
                parent = None
            else:
                parent = self.get(v, path[:-1])
            cur = self.get(v, path)

            def put(x):
                nonlocal v
                if parent is None:
                    v = x
                else:
                    parent[path[-1]] = x
            if op == "delete":
                del parent[path[-1]]
            elif op == "replace":
                put(copy.deepcopy(r.choice(self.leaves)))
            elif op == "replace-token":
                put(r.choice(self.tokens))
            elif op == "rename" and isinstance(parent, dict):
                parent[r.choice(self.tokens)] = parent.pop(path[-1])
            elif op == "insert":
                x = copy.deepcopy(r.choice(self.leaves)) if r.random() < 0.5 else copy.deepcopy(self.get(v, r.choice(ns)))
                if isinstance(cur, dict):
                    cur[r.choice(self.tokens)] = x
                elif isinstance(cur, list):
                    cur.insert(r.randrange(len(cur) + 1), x)
                else:
                    put({r.choice(self.tokens): cur})
            elif op == "copy":
                put(copy.deepcopy(self.get(v, r.choice(ns))))
            elif op == "wrap":
                put([cur] if r.random() < 0.5 else {r.choice(self.tokens): cur})
            elif op == "bytes" and isinstance(cur, str):
                b = self.atheris.Mutate(cur.encode("utf-8"), max(len(cur) + 8, 8))
                put(b.decode("utf-8", "replace"))
            elif op == "number" and isinstance(cur, (int, float)) and not isinstance(cur, bool):
                put(r.choice([cur + 1, cur - 1, -cur, cur * 2, float(cur), 0, 2 ** 31, cur + 0.5]))
            elif op == "swap" and len(ns) > 2:
                other = r.choice(ns[1:])
                if other[:len(path)] != path and path[:len(other)] != other:
                    a, b = copy.deepcopy(cur), copy.deepcopy(self.get(v, other))
                    put(b)
                    self.get(v, other[:-1])[other[-1]] = a
        try:
            out = json.dumps(v).encode("utf-8")
        except Exception:
            return data
        return out if len(out) <= max_size else data


if __name__ == "__main__":
    _child(sys.argv[1], sys.argv[2], int(sys.argv[3]), int(sys.argv[4]), sys.argv[5])
